"""C16 / gcounter: generation, implementation-side oracle, projection for coq/C16/Gcounter.v."""
import json
import vlib
from c16_common import *

NAME = "gcounter"
COQ_MODULE = "C16.Gcounter"
NPC = {"ANode.update": "Update", "ANode.wait": "Wait", "ANode.Done": "Done"}


def gen(rng):
    n = rng.choice([1, 2, 3, 3, 4, 5])
    cfg = {"NUM_NODES": n}
    if rng.random() < 0.6:
        return {"system": NAME, "kind": "auto", "cfg": cfg, "auto": {"seed": rng.getrandbits(60) | 1, "steps": 10 * n + 8}}
    sched = []
    for _ in range(rng.randint(3 * n, 10 * n + 6)):
        if rng.random() < 0.45:
            sched.append(["merge", [rng.getrandbits(30), rng.getrandbits(30)]])
        else:
            sched.append(["n%d" % rng.randint(1, n), []])
    return {"system": NAME, "kind": "blind", "cfg": cfg, "sched": sched}


def analyse(case, res):
    n = case["cfg"]["NUM_NODES"]
    fails, breaks, steps = [], [], []
    out = {"fails": fails, "breaks": breaks, "coq": None, "nontrivial": False,
           "explicit": {"system": NAME, "kind": case.get("kind", "corpus"), "cfg": case["cfg"], "sched": explicit_sched(res)}}
    if res.get("err"):
        breaks.append("harness error: " + res["err"])
        return out
    pcs = PCs(res["pcs0"])
    pre = res["init"]
    last_o = None
    merges = 0
    prev_rows = None
    try:
        for i, ob in enumerate(res["steps"]):
            f, br = generic_failures(i, ob)
            fails += f; breaks += br
            if br:
                break
            proc, oc = ob["proc"], ob["outcome"]
            post = ob["state"]
            if proc != "merge":
                pcs.update(ob)
            lc = fn_dict(post["localcntrs"])
            cc = fn_dict(post["c"])
            rows = [[nat(fn_dict(lc[a])[b]) for b in range(1, n + 1)] for a in range(1, n + 1)]
            know = []
            for a in range(1, n + 1):
                elems = cc[a]["s"]
                ks = set()
                for e in elems:
                    t = tup(e)
                    if len(t) != 2 or t[1] != 1 or not (is_nat(t[0]) and 1 <= t[0] <= n):
                        raise Unencodable(json.dumps(e))
                    ks.add(t[0])
                know.append([b in ks for b in range(1, n + 1)])
            # implementation-side oracle: StrongConvergence, monotone, bounded
            for a in range(n):
                for b in range(a + 1, n):
                    if know[a] == know[b] and rows[a] != rows[b]:
                        fails.append(("gcounter-strong-convergence", "step %d: c[%d] = c[%d] but localcntrs differ: %s vs %s" % (i, a + 1, b + 1, rows[a], rows[b])))
                if sum(rows[a]) > n:
                    fails.append(("gcounter-read-exceeds", "step %d: replica %d reads %d > NUM_NODES" % (i, a + 1, sum(rows[a]))))
            if prev_rows is not None:
                for a in range(n):
                    for b in range(n):
                        if rows[a][b] < prev_rows[a][b]:
                            fails.append(("gcounter-decreased", "step %d: localcntrs[%d][%d] went from %d to %d" % (i, a + 1, b + 1, prev_rows[a][b], rows[a][b])))
            prev_rows = rows
            if oc != "commit" and post != pre:
                fails.append(("abort-changed-state", "step %d: %s attempt of %s changed the spec state" % (i, oc, proc)))
            if proc == "merge":
                pk = ob["picks"]
                ev = "(EMerge %d %s)" % (nat(pk[0]), "None" if len(pk) < 2 else "(Some %d)" % nat(pk[1]))
                if oc == "commit":
                    merges += 1
            else:
                ev = "(ENode %d)" % int(proc[1:])
            o = "(mkObs %s %s %s)" % (vlib.coq_list([coq_nats(r) for r in rows]),
                                      vlib.coq_list([vlib.coq_list([vlib.coq_bool(x) for x in r]) for r in know]),
                                      vlib.coq_list([NPC[pcs.pc["n%d" % q]] for q in range(1, n + 1)]))
            same = oc != "commit" and post == pre and steps and last_o == o
            steps.append("(%s,(%d,%s))" % (ev, OUT[oc], "None" if same else "Some " + o))
            last_o = o
            pre = post
            if oc.startswith("error"):
                break
    except (Unencodable, KeyError, IndexError) as e:
        breaks.append("observation outside the typed model's universe: %r" % (e,))
    out["coq"] = "(%d, [%s])" % (n, ";\n  ".join(steps))
    out["nontrivial"] = n >= 2 and merges >= 2
    return out
