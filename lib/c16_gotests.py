"""C16 / the *.gotests programs of pgo/test/files/general under steplib walks: generation, oracle (no failed assertion,
no TLA+ type error, no crash, plus the values each program is built to produce), and the projection for the two that have
a Coq model (coq/C16/GtIndexing.v, coq/C16/GtNonDet.v). One Prog object per program; props/c16.py treats each like a system."""
import vlib
from c16_common import *


class Prog:
    def __init__(self, name, coq_module, gen, oracle):
        self.NAME, self.COQ_MODULE, self._gen, self._oracle = name, coq_module, gen, oracle

    def gen(self, rng):
        cfg, steps = self._gen(rng)
        return {"system": self.NAME, "kind": "auto", "cfg": cfg, "auto": {"seed": rng.getrandbits(60) | 1, "steps": steps}}

    def analyse(self, case, res):
        fails, breaks = [], []
        out = {"fails": fails, "breaks": breaks, "coq": None, "nontrivial": False, "stats": {},
               "explicit": {"system": self.NAME, "kind": case.get("kind", "corpus"), "cfg": case["cfg"], "sched": explicit_sched(res)}}
        if res.get("err"):
            breaks.append("harness error: " + res["err"])
            return out
        try:
            self._oracle(case, res, out)
        except (Unencodable, KeyError, IndexError, TypeError) as e:
            breaks.append("observation outside what the program can produce: %r" % (e,))
        return out


def walk_generic(res, out, expected_assert=None):
    """generic failure classes on every step; `expected_assert(i, ob, pre) -> signature or None` reclassifies an assertion
    failure that the SPEC prescribes in that state (a defect of the test program's spec, reported under its own signature).
    yields (i, ob, pre_state, pre_locals_of_proc)"""
    pre = res["init"]
    locs = {}
    for i, ob in enumerate(res["steps"]):
        f, br = generic_failures(i, ob)
        if f and ob["outcome"] == "error:assert" and expected_assert is not None:
            sig = expected_assert(i, ob, pre, locs.get(ob["proc"], {}))
            if sig:
                f = [(sig[0], "step %d: %s" % (i, sig[1]))]
        out["fails"] += f
        out["breaks"] += br
        if br:
            return
        if ob["outcome"] != "commit" and ob["state"] != pre:
            out["fails"].append(("abort-changed-state", "step %d: %s attempt of %s changed the spec state" % (i, ob["outcome"], ob["proc"])))
        yield i, ob, pre, locs.get(ob["proc"], {})
        pre = ob["state"]
        if ob.get("locals") is not None:
            locs[ob["proc"]] = ob["locals"]
        if ob["outcome"].startswith("error"):
            return


def all_done(res, procs=None):
    done = {ob["proc"] for ob in res["steps"] if ob["outcome"] == "done"}
    return set(procs if procs is not None else res["procs"]) <= done


# ------------------------------------------------------------------ hello
def hello_oracle(case, res, out):
    for i, ob, pre, _ in walk_generic(res, out):
        if ob["label"] == "AHello.lbl" and ob["outcome"] == "commit" and ob["state"].get("out") != "hello":
            out["fails"].append(("gotests-hello-wrong-output", "step %d: out = %r, expected \"hello\"" % (i, ob["state"].get("out"))))
    out["nontrivial"] = all_done(res)


# ------------------------------------------------------------------ IndexingLocals (model: C16.GtIndexing)
IPC = {"ANode.logWrite": "LogWrite", "ANode.logUpdate": "LogUpdate", "ANode.logRead": "LogRead", "ANode.multiWrite": "MultiWrite", "ANode.Done": "IDone"}


def item(x):
    if is_nat(x):
        return "INum %d" % x
    d = fn_dict(x)
    if list(d) != ["foo"]:
        raise Unencodable(repr(x))
    return "IFoo %d" % nat(d["foo"])


def indexing_oracle(case, res, out):
    steps, pc = [], res["pcs0"]["node"]
    for i, ob, pre, _ in walk_generic(res, out):
        oc = ob["outcome"]
        if oc == "commit":
            pc = ob["pc"]
        elif oc == "done":
            pc = ob["label"]
        loc = ob.get("locals") or {}
        log = [item(x) for x in tup(loc["ANode.log"])] if "ANode.log" in loc else []
        p = loc.get("ANode.p")
        o = "(mkObs %s %s %s)" % (vlib.coq_list(log), "None" if p is None else "(Some (%s))" % item(p), IPC[pc])
        steps.append("(0,(%d,Some %s))" % (OUT[oc], o))
        if oc == "done":
            want_log, want_p = {"t": [3, 21, 999, {"f": [["foo", 43]]}]}, 3
            if loc.get("ANode.log") != want_log or p != want_p:
                out["fails"].append(("gotests-indexinglocals-wrong-result", "step %d: log = %r, p = %r" % (i, loc.get("ANode.log"), p)))
    out["coq"] = "(0, [%s])" % ";\n  ".join(steps)
    out["nontrivial"] = all_done(res)


# ------------------------------------------------------------------ NonDetExploration (model: C16.GtNonDet)
CPC = {"ACoverage.l1": 1, "ACoverage.l2": 2, "ACoverage.l3": 3, "ACoverage.l4": 4, "ACoverage.Done": 0}
KPC = {"ACoincidence.lbl": 1, "ACoincidence.Done": 0}
XPC = {"AComplex.loop": 1, "AComplex.lbl1": 2, "AComplex.lbl2": 3, "AComplex.Done": 0}


def nondet_oracle(case, res, out):
    order = tup(res["init"]["order"])          # element the runtime's SelectElement(i) returns for TheSet
    if sorted(order) != [1, 2]:
        out["breaks"].append("TheSet is not {1, 2}: %r" % (order,))
        return
    pcs = PCs(res["pcs0"])
    steps, picked = [], []
    i_val, mark = 0, set()

    def spec_assert(i, ob, pre, loc):
        # the spec's own comment: "with high probability (1 - 2 / 2^20) this assertion is true": it fails exactly when the
        # with chose the same element all 20 times (theorem nondet_complex_assertion_exactly_when)
        if ob["label"] == "AComplex.loop" and len(picked) == 20 and len(set(picked)) == 1:
            return ("gotests-NonDetExploration-AComplex-assertion",
                    "AComplex's assertion \\A a \\in TheSet : a \\in mark failed after the with chose %d all 20 times, as the spec prescribes" % picked[0])
        return None

    for i, ob, pre, _ in walk_generic(res, out, spec_assert):
        proc, oc = ob["proc"], ob["outcome"]
        els = []
        for c in ob["choices"]:
            if c["ceiling"] != 2:
                out["fails"].append(("gotests-nondet-wrong-ceiling", "step %d: a with over TheSet had %d candidates" % (i, c["ceiling"])))
            els.append(order[c["index"] % 2])
        pcs.update(ob)
        loc = ob.get("locals") or {}
        if proc == "coverage":
            if len(els) != 2 and oc in ("commit", "abort"):
                out["breaks"].append("step %d: coverage consulted %d choice points" % (i, len(els)))
            ev = "ECov %d %d" % tuple((els + [1, 1])[:2])
        elif proc == "coincidence":
            ev = "ECoin %d %d %d %d" % tuple((els + [1, 1, 1, 1])[:4])
        else:
            ev = "ECx %d" % (els + [1])[0]
            if oc == "commit" and ob["label"] == "AComplex.lbl1":
                picked.append(els[0])
            if "AComplex.i" in loc:
                i_val = nat(loc["AComplex.i"])
            if "AComplex.mark" in loc:
                mark = set(loc["AComplex.mark"]["s"])
            if oc == "done" and mark != {1, 2}:
                out["fails"].append(("gotests-nondet-complex-finished-without-mark", "step %d: AComplex finished with mark = %r" % (i, sorted(mark))))
        o = "(mkObs %d %d %d %d %s %s)" % (CPC[pcs.pc["coverage"]], KPC[pcs.pc["coincidence"]], XPC[pcs.pc["complex"]], i_val,
                                            vlib.coq_bool(1 in mark), vlib.coq_bool(2 in mark))
        steps.append("(%s,(%d,Some %s))" % (ev, OUT[oc], o))
    out["coq"] = "(0, [%s])" % ";\n  ".join(steps)
    out["nontrivial"] = all_done(res, ["complex"]) and pcs.pc["coverage"] != "ACoverage.l1"
    out["stats"] = {"coverage_done": int(pcs.pc["coverage"] == "ACoverage.Done"), "coincidence_done": int(pcs.pc["coincidence"] == "ACoincidence.Done"),
                    "complex_done": int(pcs.pc["complex"] == "AComplex.Done")}


# ------------------------------------------------------------------ bug2_124 (echo server over TCPChannel)
def key2(a, b):
    return vlib_json({"t": [a, b]})


def vlib_json(x):
    import json
    return json.dumps(x, sort_keys=True)


def net_dict(state):
    return {vlib_json(k): tup(v) for k, v in state["network"]["f"]}


def bug2_oracle(case, res, out):
    b = case["cfg"]["BUFFER_SIZE"]
    echoed = 0
    for i, ob, pre, loc in walk_generic(res, out):
        proc, oc, label = ob["proc"], ob["outcome"], ob["label"]
        n0, n1 = net_dict(pre), net_dict(ob["state"])
        if any(len(q) > b for q in n1.values()):
            out["fails"].append(("gotests-bug2-buffer-exceeded", "step %d: a queue holds more than BUFFER_SIZE = %d messages" % (i, b)))
        if not proc.startswith("echo") or oc != "commit":
            continue
        me = int(proc[4:])
        if label == "AEchoServer.rcvMsg":
            k = key2(me, 1)
            want = dict(n0)
            head, want[k] = n0[k][0], n0[k][1:]
            if n1 != want or ob["locals"].get("AEchoServer.msg") != head:
                out["fails"].append(("gotests-bug2-wrong-receive", "step %d: rcvMsg of %s did not take the head of network[<<self, 1>>]" % (i, proc)))
        elif label == "AEchoServer.sndMsg":
            m = fn_dict(loc["AEchoServer.msg"])
            k = key2(m["from"], m["typ"])
            want = dict(n0)
            want[k] = n0[k] + [{"f": [["body", m["body"]], ["from", me], ["to", m["from"]], ["typ", m["typ"]]]}]
            if n1 != want:
                out["fails"].append(("gotests-bug2-wrong-echo", "step %d: sndMsg of %s did not append the echo of %r to network[<<msg.from, msg.typ>>]" % (i, proc, m)))
            echoed += 1
        elif n1 != n0:
            out["fails"].append(("gotests-bug2-unexpected-write", "step %d: %s of %s changed the network" % (i, label, proc)))
    out["nontrivial"] = echoed >= 2
    out["stats"] = {"echoed": echoed}


# ------------------------------------------------------------------ PBFail4_bug125
def pbfail_oracle(case, res, out):
    cfg = case["cfg"]
    nr, b = cfg["NUM_REPLICAS"], cfg["BUFFER_SIZE"]

    def spec_assert(i, ob, pre, loc):
        # the primary expects the backups' acknowledgements in replica order (assert rep.from = idx) but backups answer in any
        # order: with >= 3 replicas the spec's own assertion fails (the program is a compile-only regression input)
        if ob["label"] == "AReplica.rcvMsgFromReplica" and nr >= 3 and "((rep).from) = (idx)" in ob.get("err", ""):
            me = int(ob["proc"][3:])
            q = net_dict(pre)[key2(me, 4)]
            if q and fn_dict(q[0])["from"] != loc.get("AReplica.idx"):
                return ("gotests-PBFail4-ack-order-assertion",
                        "AReplica.rcvMsgFromReplica: assert rep.from = idx failed: the acknowledgement at the head of the primary's queue is from "
                        "replica %r while idx = %r, as the spec prescribes when backups answer out of order" % (fn_dict(q[0])["from"], loc.get("AReplica.idx")))
        return None

    for i, ob, pre, loc in walk_generic(res, out, spec_assert):
        n1 = net_dict(ob["state"])
        if any(len(q) > b for q in n1.values()):
            out["fails"].append(("gotests-pbfail4-buffer-exceeded", "step %d: a queue holds more than BUFFER_SIZE = %d messages" % (i, b)))
        for k, v in ob["state"]["fs"]["f"]:
            if v not in ({"t": []}, "VALUE1"):
                out["fails"].append(("gotests-pbfail4-wrong-file", "step %d: fs[%r] = %r" % (i, k, v)))
        if ob["state"]["fd"] != res["init"]["fd"]:
            out["fails"].append(("gotests-pbfail4-fd-changed", "step %d: fd changed although EXPLORE_FAIL = FALSE" % i))
    clients = [p for p in res["procs"] if p.startswith("cli")]
    ndone = sum(1 for ob in res["steps"] if ob["outcome"] == "done" and ob["proc"] in clients)
    out["nontrivial"] = ndone >= 1
    out["stats"] = {"clients_finished": ndone}


# ------------------------------------------------------------------ bug_119 / ProcedureSpaghetti / ExprTests
def bug119_oracle(case, res, out):
    for i, ob, pre, _ in walk_generic(res, out):
        if ob["outcome"] == "done" and ob["state"].get("out") != 1:
            out["fails"].append(("gotests-bug119-wrong-output", "step %d: out = %r, expected 1" % (i, ob["state"].get("out"))))
    out["nontrivial"] = all_done(res)


def spaghetti_oracle(case, res, out):
    c = case["cfg"]
    last = res["init"]
    for i, ob, pre, _ in walk_generic(res, out):
        last = ob["state"]
    if all_done(res):
        want = {"V1": c["E1"] + 1 + c["F1"] + 1 + c["F2"], "V2": c["E2"] + 1 + c["F3"]}
        if last != want:
            out["fails"].append(("gotests-procspaghetti-wrong-result", "all three instances finished with %r, expected %r" % (last, want)))
    out["nontrivial"] = all_done(res)


def nothing_oracle(case, res, out):
    for _ in walk_generic(res, out):
        pass
    out["nontrivial"] = all_done(res)


PROGRAMS = [
    Prog("gt_hello", None, lambda rng: ({"VARIANT": rng.randrange(3)}, 4), hello_oracle),
    Prog("gt_indexinglocals", "C16.GtIndexing", lambda rng: ({}, 8), indexing_oracle),
    Prog("gt_nondet", "C16.GtNonDet", lambda rng: ({}, 260), nondet_oracle),
    Prog("gt_bug2_124", None, lambda rng: ({"NUM_NODES": rng.choice([1, 2, 3]), "BUFFER_SIZE": rng.choice([1, 2, 3])}, 120), bug2_oracle),
    Prog("gt_pbfail4", None, lambda rng: ({"NUM_REPLICAS": rng.choice([1, 2, 2]), "NUM_CLIENTS": rng.choice([1, 2, 3]), "BUFFER_SIZE": rng.choice([1, 2, 3])}, 500), pbfail_oracle),
    Prog("gt_bug_119", None, lambda rng: ({}, 8), bug119_oracle),
    Prog("gt_procspaghetti", None, lambda rng: ({"E1": rng.randrange(50), "E2": rng.randrange(50), "F1": rng.randrange(50), "F2": rng.randrange(50),
                                                 "F3": rng.randrange(50), "MAPPED": rng.randrange(2)}, 40), spaghetti_oracle),
    Prog("gt_exprtests", None, lambda rng: ({}, 4), nothing_oracle),
]
# walks per program: quick, thorough (deterministic single-process programs have one schedule)
BUDGET = {"gt_hello": (3, 6), "gt_indexinglocals": (1, 2), "gt_nondet": (3, 150), "gt_bug2_124": (3, 150), "gt_pbfail4": (4, 300),
          "gt_bug_119": (1, 2), "gt_procspaghetti": (3, 100), "gt_exprtests": (1, 2)}
