"""Shared helpers of the C16 per-system checks (lib/c16_<system>.py)."""
import json
import vlib

OUT = {"commit": 0, "abort": 1, "done": 2, "finished": 2, "error:assert": 3, "error:tlatype": 4}


class Unencodable(Exception):
    pass


def fn_dict(x):
    """{"f": [[k, v], ...]} -> dict (keys must be hashable JSON scalars)"""
    if not (isinstance(x, dict) and "f" in x):
        raise Unencodable(json.dumps(x))
    return {k: v for k, v in x["f"]}


def tup(x):
    if not (isinstance(x, dict) and "t" in x):
        raise Unencodable(json.dumps(x))
    return x["t"]


def is_nat(x):
    return isinstance(x, int) and not isinstance(x, bool) and x >= 0


def nat(x):
    if not is_nat(x):
        raise Unencodable(json.dumps(x))
    return x


def coq_nats(xs):
    return vlib.coq_list([str(nat(x)) for x in xs])


def generic_failures(i, ob):
    """assertion / type error / crash classes common to every system. returns (fails, breaks)"""
    out, label, proc = ob["outcome"], ob["label"], ob["proc"]
    fails, breaks = [], []
    if out == "error:assert":
        fails.append(("assertion-failed:" + label, "step %d: assertion failed in %s of %s: %s" % (i, label, proc, ob.get("err", "")[:200])))
    elif out == "error:tlatype":
        fails.append(("tla-type-error:" + label, "step %d: TLA+ type error in %s of %s: %s" % (i, label, proc, ob.get("err", "")[:200])))
    elif out not in OUT:
        breaks.append("step %d: archetype %s ended with %s (%s)" % (i, proc, out, ob.get("err", "")[:200]))
    for st in ob.get("stale") or []:
        breaks.append("step %d: stale local state (an aborted attempt was not rolled back?): %s" % (i, st))
    return fails, breaks


class PCs:
    """tracks the pc of every proc from the observations"""
    def __init__(self, pcs0):
        self.pc = dict(pcs0)

    def update(self, ob):
        if ob["outcome"] == "commit":
            self.pc[ob["proc"]] = ob["pc"]
        elif ob["outcome"] == "done":
            self.pc[ob["proc"]] = ob["label"]     # stays at its Done label


def explicit_sched(res):
    return [[ob["proc"], [c["index"] for c in ob["choices"]]] for ob in res["steps"]]
