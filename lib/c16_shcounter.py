"""C16 / shcounter: generation, implementation-side oracle, projection for coq/C16/Shcounter.v."""
import vlib
from c16_common import *

NAME = "shcounter"
COQ_MODULE = "C16.Shcounter"
NPC = {"ANode.update": "Update", "ANode.wait": "Wait", "ANode.Done": "Done"}


def gen(rng):
    n = rng.choice([1, 2, 3, 3, 4, 5, 6])
    cfg = {"NUM_NODES": n}
    if rng.random() < 0.5:
        return {"system": NAME, "kind": "auto", "cfg": cfg, "auto": {"seed": rng.getrandbits(60) | 1, "steps": 6 * n + 6}}
    sched = [["n%d" % rng.randint(1, n), []] for _ in range(rng.randint(2 * n, 6 * n + 4))]
    return {"system": NAME, "kind": "blind", "cfg": cfg, "sched": sched}


def analyse(case, res):
    n = case["cfg"]["NUM_NODES"]
    fails, breaks, steps = [], [], []
    out = {"fails": fails, "breaks": breaks, "coq": None, "nontrivial": False,
           "explicit": {"system": NAME, "kind": case.get("kind", "corpus"), "cfg": case["cfg"], "sched": explicit_sched(res)}}
    if res.get("err"):
        breaks.append("harness error: " + res["err"])
        return out
    pcs = PCs(res["pcs0"])
    pre = res["init"]
    last_o = None
    waited = False
    try:
        for i, ob in enumerate(res["steps"]):
            f, br = generic_failures(i, ob)
            fails += f; breaks += br
            if br:
                break
            proc, oc = ob["proc"], ob["outcome"]
            p = int(proc[1:])
            post = ob["state"]
            pcs.update(ob)
            c0, c1 = nat(pre["cntr"]), nat(post["cntr"])
            if c1 < c0:
                fails.append(("shcounter-decreased", "step %d: cntr went from %d to %d" % (i, c0, c1)))
            if c1 > n:
                fails.append(("shcounter-exceeds", "step %d: cntr = %d > NUM_NODES = %d" % (i, c1, n)))
            passed = sum(1 for q in range(1, n + 1) if pcs.pc["n%d" % q] != "ANode.update")
            if c1 != passed:
                fails.append(("shcounter-miscount", "step %d: cntr = %d but %d nodes have passed update" % (i, c1, passed)))
            if any(pcs.pc["n%d" % q] == "ANode.Done" for q in range(1, n + 1)) and c1 != n:
                fails.append(("shcounter-finished-early", "step %d: a node finished with cntr = %d, NUM_NODES = %d" % (i, c1, n)))
            if oc != "commit" and post != pre:
                fails.append(("abort-changed-state", "step %d: %s attempt of %s changed the spec state" % (i, oc, proc)))
            if oc == "abort":
                waited = True
            o = "(mkObs %d %s)" % (c1, vlib.coq_list([NPC[pcs.pc["n%d" % q]] for q in range(1, n + 1)]))
            same = oc != "commit" and post == pre and steps and last_o == o
            steps.append("(%d,(%d,%s))" % (p, OUT[oc], "None" if same else "Some " + o))
            last_o = o
            pre = post
            if oc.startswith("error"):
                break
    except (Unencodable, KeyError) as e:
        breaks.append("observation outside the typed model's universe: %r" % (e,))
    out["coq"] = "(%d, [%s])" % (n, ";\n  ".join(steps))
    out["nontrivial"] = n >= 2 and waited
    return out
