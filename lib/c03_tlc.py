"""Cross-check of the reference semantics (lib/c03_sem.py, itself compared with coq/Base/Ops.v on every case)
against TLC: the cases of the check are rendered as TLA+ constant expressions and evaluated by TLC in
batched `ASSUME PrintT(...)` modules.  TLC is an oracle for the SPEC side only; no theorem depends on it.

For a case whose reference outcome is a value v the module asserts  PrintT(<<"R", id, (expr) = (literal v)>>)
and TLC must print TRUE; for a case whose reference outcome is an error TLC must fail on the expression.
TLC aborts a module at the first error, so a batch is re-submitted from the line after the failing one.
TLC cannot compare values of different kinds nor build heterogeneous sets: such failures on a case whose
reference outcome is a value are counted as inconclusive, not as disagreements.
"""
import os, re, shutil, subprocess
from concurrent.futures import ThreadPoolExecutor
import c03_sem as S

JAR = "/opt/veriftools/tla/tla2tools.jar"
INCONCLUSIVE = re.compile(r"Attempted to check equality|Attempted to compare|not enumerable|non-enumerable|"
                          r"Attempted to check set membership|with non-|incomparable|Attempted to construct a set")


class Unsupported(Exception):
    pass


def lit(x):
    """TLA+ literal of a semantic value"""
    t = x[0]
    if t == "b":
        return "TRUE" if x[1] else "FALSE"
    if t == "n":
        # the parser reads -2147483648 as -(2147483648) and rejects the literal
        return "(-2147483647 - 1)" if x[1] == -2**31 else "(%d)" % x[1]
    if t == "s":
        if not all(32 <= ord(c) <= 126 for c in x[1]):
            raise Unsupported("string")
        return '"' + x[1].replace("\\", "\\\\").replace('"', '\\"') + '"'
    if t == "S":
        return "{" + ", ".join(sorted(lit(e) for e in x[1])) + "}"
    if t == "T":
        return "<<" + ", ".join(lit(e) for e in x[1]) + ">>"
    if t == "F":
        return "(" + " @@ ".join(sorted("%s :> %s" % (lit(k), lit(v)) for k, v in x[1])) + ")"
    raise Unsupported("defaultInitValue has no TLA+ literal")


def sort_of(x):
    """a coarse TLC 'type': values of different sorts cannot be members of one set / compared"""
    t = x[0]
    if t in ("b", "n", "s"):
        return t
    if t == "S":
        ss = {sort_of(e) for e in x[1]}
        if len(ss) > 1:
            raise Unsupported("heterogeneous set")
        return ("S", next(iter(ss)) if ss else None)
    if t == "T":
        return ("fn", tuple(sort_of(e) for e in x[1]))
    if t == "F":
        ks = {sort_of(k) for k, _ in x[1]}
        if len(ks) > 1:
            raise Unsupported("heterogeneous domain")
        for _, v in x[1]:
            sort_of(v)
        return ("fn", "F", next(iter(ks)))
    raise Unsupported("d")


def closure_pred(cl, xs, sem):
    name = cl[0]
    c = lit(S.norm(cl[1], True)) if len(cl) > 1 else None
    if name == "true":
        return "TRUE"
    if name == "false":
        return "FALSE"
    if name == "gt":
        return "%s > %s" % (xs[0], c)
    if name == "in":
        return "%s \\in %s" % (xs[0], c)
    if name == "lt2":
        return "%s < %s" % (xs[0], xs[1])
    if name == "asbool":
        return xs[0]
    if name == "tuplt":
        return "%s[1] < %s[2]" % (xs[0], xs[0])
    raise Unsupported("predicate " + name)


def closure_body(cl, xs):
    name = cl[0]
    c = lit(S.norm(cl[1], True)) if len(cl) > 1 else None
    if name == "id":
        return xs[0]
    if name == "const":
        return c
    if name == "tuple":
        return "<<" + ", ".join(xs) + ">>"
    if name == "plus":
        return "%s + %s" % (xs[0], c)
    if name == "single":
        return "{%s}" % xs[0]
    if name == "mod":
        return "%s %% %s" % (xs[0], c)
    if name == "last":
        return xs[-1]
    if name == "tupswap":
        return "<<%s[2], %s[1]>>" % (xs[0], xs[0])
    raise Unsupported("body " + name)


BIN = {"Eq": "=", "Neq": "#", "Equiv": "<=>", "And": "/\\", "Or": "\\/", "Implies": "=>", "Plus": "+", "Minus": "-", "Times": "*", "Pow": "^",
       "Le": "<=", "Ge": ">=", "Lt": "<", "Gt": ">", "DotDot": "..", "Div": "\\div", "Mod": "%", "In": "\\in", "NotIn": "\\notin",
       "Intersect": "\\cap", "Union": "\\cup", "SubsetEq": "\\subseteq", "SetMinus": "\\", "Concat": "\\o", "ColonGt": ":>", "AtAt": "@@"}
PRE = {"Not": "~", "Neg": "-", "SUBSET": "SUBSET ", "UNION": "UNION ", "Domain": "DOMAIN "}
FUN = {"IsFiniteSet": "IsFiniteSet", "Cardinality": "Cardinality", "Len": "Len", "Append": "Append", "Head": "Head", "Tail": "Tail",
       "SubSeq": "SubSeq", "Assert": "Assert"}


def expr(case):
    """the TLA+ constant expression of a case; raises Unsupported"""
    op = case["op"]
    sem = [S.norm(a, True) for a in case["args"]]
    for x in sem:
        sort_of(x)
    a = [lit(x) for x in sem]
    fn = case.get("fn")
    if op in BIN:
        return "(%s) %s (%s)" % (a[0], BIN[op], a[1])
    if op in PRE:
        return "%s(%s)" % (PRE[op], a[0])
    if op in FUN:
        return "%s(%s)" % (FUN[op], ", ".join(a))
    if op == "If":
        return "IF %s THEN %s ELSE %s" % tuple(a)
    if op == "Apply":
        return "(%s)[%s]" % (a[0], a[1])
    if op == "MakeSet":
        sort_of(("S", frozenset(sem)))
        return "{" + ", ".join(a) + "}"
    if op == "MakeTuple":
        return "<<" + ", ".join(a) + ">>"
    if op == "MakeRecord":
        if not a:
            return "<<>>"
        sort_of(("S", frozenset(sem[0::2])))
        return "(" + " @@ ".join("%s :> %s" % (a[i], a[i + 1]) for i in range(0, len(a) - 1, 2)) + ")"
    if op == "MakeRecordSet":
        ks = case["args"][0::2]
        if not ks or not all(k[0] == "s" and k[1].isalpha() for k in ks) or len({k[1] for k in ks}) != len(ks):
            raise Unsupported("record set keys")
        return "[" + ", ".join("%s : %s" % (k[1], a[2 * i + 1]) for i, k in enumerate(ks)) + "]"
    if op == "MakeFunctionSet":
        return "[%s -> %s]" % (a[0], a[1])
    if op == "CrossProduct":
        if len(a) < 2:
            raise Unsupported("unary product")
        return " \\X ".join("(%s)" % x for x in a)
    if op in ("Forall", "Exists"):
        xs = ["x%d" % i for i in range(len(a))]
        q = "\\A" if op == "Forall" else "\\E"
        return "%s %s : %s" % (q, ", ".join("%s \\in %s" % (x, s) for x, s in zip(xs, a)), closure_pred(fn, xs, sem))
    if op == "SetRefinement":
        return "{x0 \\in %s : %s}" % (a[0], closure_pred(fn, ["x0"], sem))
    if op == "SetComprehension":
        xs = ["x%d" % i for i in range(len(a))]
        return "{%s : %s}" % (closure_body(fn, xs), ", ".join("%s \\in %s" % (x, s) for x, s in zip(xs, a)))
    if op == "MakeFunction":
        xs = ["x%d" % i for i in range(len(a))]
        return "[%s |-> %s]" % (", ".join("%s \\in %s" % (x, s) for x, s in zip(xs, a)), closure_body(fn, xs))
    if op == "Choose":
        return "CHOOSE x0 \\in %s : %s" % (a[0], closure_pred(fn, ["x0"], sem))
    if op == "Except":
        subs = []
        for s in case["subs"]:
            ks = "".join("[%s]" % lit(S.norm(k, True)) for k in s["keys"])
            subs.append("!%s = %s" % (ks, closure_body(s["val"], ["@"])))
        return "[%s EXCEPT %s]" % (a[0], ", ".join(subs))
    raise Unsupported(op)


def assertion(case, ref):
    """(kind, tla expression) for one case, or None"""
    try:
        e = expr(case)
        if ref[0] == "ok":
            sort_of(ref[1])
            return ("value", "(%s) = (%s)" % (e, lit(ref[1])))
        if ref[0] == "err":
            return ("error", e)
        if ref[0] == "member" and case["op"] == "Choose":
            return ("value", "LET r == %s IN r \\in %s" % (e, lit(("S", ref[1]))))
    except Unsupported:
        return None
    return None


def run_module(workdir, name, lines):
    d = os.path.join(workdir, name)
    os.makedirs(d, exist_ok=True)
    body = "---- MODULE T ----\nEXTENDS Integers, Sequences, FiniteSets, TLC\n" + \
           "".join('ASSUME PrintT(<<"R", %d, %s>>)\n' % (i, e) for i, e in lines) + "====\n"
    open(os.path.join(d, "T.tla"), "w").write(body)
    open(os.path.join(d, "T.cfg"), "w").write("")
    try:
        p = subprocess.run(["java", "-XX:+UseParallelGC", "-Xmx1g", "-cp", JAR, "tlc2.TLC", "-config", "T.cfg", "T.tla"],
                           cwd=d, capture_output=True, text=True, timeout=300)
        out = p.stdout + p.stderr
    except subprocess.TimeoutExpired:
        out = "TIMEOUT"
    shutil.rmtree(d, ignore_errors=True)
    got = {}
    for m in re.finditer(r'<<"R", (\d+), (.*?)>>\s*$', out, re.M):
        got[int(m.group(1))] = m.group(2)
    err = ""
    m = re.search(r"(Error:.*?)(?:\n\d+ states|\nFinished|\Z)", out, re.S)
    if m:
        err = " ".join(m.group(1).split())[:400]
    if "TIMEOUT" in out:
        err = "TIMEOUT"
    if not got and re.search(r"Parsing or semantic analysis failed|Semantic errors|Could not parse|can't handle a number this big", out):
        err = "MODULE-REJECTED " + err
    return got, err


def crosscheck(cases, workdir, max_values=4000, max_errors=160, workers=6):
    """cases: list of (case, reference outcome). Returns (stats, disagreements)"""
    vals, errs = [], []
    for idx, (c, ref) in enumerate(cases):
        a = assertion(c, ref)
        if a is None:
            continue
        (vals if a[0] == "value" else errs).append((idx, a[1]))
    # spread over the operators
    def spread(items, n):
        if len(items) <= n:
            return items
        step = len(items) / float(n)
        return [items[int(i * step)] for i in range(n)]
    vals, errs = spread(vals, max_values), spread(errs, max_errors)
    stats = {"value_expressions": 0, "agree_value": 0, "error_expressions": 0, "agree_error": 0, "inconclusive": 0, "tlc_runs": 0}
    bad = []

    def do_value_batch(args):
        bi, batch = args
        out = []
        pending = list(batch)
        runs = 0
        while pending and runs < 25:
            got, err = run_module(workdir, "v%d_%d" % (bi, runs), pending)
            runs += 1
            if err.startswith("MODULE-REJECTED"):
                # a rendering problem of ours, not an evaluation result: nothing of this batch is judged
                out.extend((i, e, "rejected", err) for (i, e) in pending)
                pending = []
                break
            rest = []
            failed_here = False
            for k, (i, e) in enumerate(pending):
                if i in got:
                    out.append((i, e, "printed", got[i]))
                else:
                    # the first line without output is the one TLC failed on
                    out.append((i, e, "error", err or "no output"))
                    rest = pending[k + 1:]
                    failed_here = True
                    break
            pending = rest if failed_here else []
        for (i, e) in pending:
            out.append((i, e, "skipped", ""))
        return runs, out

    batches = [(b, vals[s:s + 150]) for b, s in enumerate(range(0, len(vals), 150))]
    with ThreadPoolExecutor(max_workers=workers) as ex:
        for runs, out in ex.map(do_value_batch, batches):
            stats["tlc_runs"] += runs
            for i, e, kind, txt in out:
                if kind == "skipped":
                    continue
                if kind == "rejected":
                    stats["module_rejected"] = stats.get("module_rejected", 0) + 1
                    continue
                stats["value_expressions"] += 1
                if kind == "printed" and txt.strip() == "TRUE":
                    stats["agree_value"] += 1
                elif kind == "error" and INCONCLUSIVE.search(txt):
                    stats["inconclusive"] += 1
                else:
                    bad.append({"case": cases[i][0], "reference": str(cases[i][1])[:300], "tla": e[:500], "tlc": (kind + ": " + txt)[:400]})

    def do_error(args):
        j, (i, e) = args
        got, err = run_module(workdir, "e%d" % j, [(i, e)])
        return i, e, got, err

    with ThreadPoolExecutor(max_workers=workers) as ex:
        for i, e, got, err in ex.map(do_error, list(enumerate(errs))):
            stats["tlc_runs"] += 1
            stats["error_expressions"] += 1
            if i in got:
                why = str(cases[i][1][1]) if len(cases[i][1]) > 1 else ""
                if "<expression" in got[i]:
                    # TLC printed an unevaluated (lazy) function value: it did not evaluate the expression
                    stats["inconclusive"] += 1
                elif why.startswith("not a"):
                    # the reference rejects an operand of the wrong kind; TLC did not inspect that operand
                    # (e.g. [a : {}, b : 5] = {}): counted and listed, not a disagreement about a well-typed call
                    stats["tlc_lenient_on_illtyped"] = stats.get("tlc_lenient_on_illtyped", 0) + 1
                    stats.setdefault("tlc_lenient_examples", [])
                    if len(stats["tlc_lenient_examples"]) < 8:
                        stats["tlc_lenient_examples"].append(e[:200] + "  ==>  " + got[i][:80])
                else:
                    bad.append({"case": cases[i][0], "reference": "error: " + why, "tla": e[:500], "tlc": "value: " + got[i][:300]})
            else:
                stats["agree_error"] += 1
    return stats, bad
