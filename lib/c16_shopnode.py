"""C16 / shopcart's interactive archetype ANode (AWORSet with Add AND Remove, shared input queue) + the spec's merge process:
generation, implementation-side oracle, projection for coq/C16/ShopNode.v."""
import json
import vlib
from c16_common import *

NAME = "shopnode"
COQ_MODULE = "C16.ShopNode"
NPC = {"ANode.nodeLoop": "NLoop", "ANode.rcvResp": "NResp"}


def decode_input(cfg):
    ne, code, out = cfg["NumElems"], cfg["INPUT"], []
    for _ in range(cfg["InputLen"]):
        d = code % (2 * ne)
        code //= 2 * ne
        out.append((d % 2 == 0, d // 2))          # (is Add, element)
    return out


def gen(rng):
    n = rng.choice([1, 2, 2, 3, 3])
    ne = rng.choice([1, 2, 2, 3])
    ln = rng.randint(2, 9)
    cfg = {"NumNodes": n, "NumElems": ne, "InputLen": ln, "INPUT": rng.randrange((2 * ne) ** ln)}
    if rng.random() < 0.65:
        return {"system": NAME, "kind": "auto", "cfg": cfg, "auto": {"seed": rng.getrandbits(60) | 1, "steps": 6 * ln + 10}}
    sched = []
    for _ in range(rng.randint(3 * ln, 6 * ln + 8)):
        if rng.random() < 0.45:
            sched.append(["merge", [rng.getrandbits(30), rng.getrandbits(30)]])
        else:
            sched.append(["n%d" % rng.randint(1, n), []])
    return {"system": NAME, "kind": "blind", "cfg": cfg, "sched": sched}


def analyse(case, res):
    cfg = case["cfg"]
    n, ne = cfg["NumNodes"], cfg["NumElems"]
    inp = decode_input(cfg)
    fails, breaks, steps = [], [], []
    out = {"fails": fails, "breaks": breaks, "coq": None, "nontrivial": False, "stats": {},
           "explicit": {"system": NAME, "kind": case.get("kind", "corpus"), "cfg": cfg, "sched": explicit_sched(res)}}
    if res.get("err"):
        breaks.append("harness error: " + res["err"])
        return out
    pcs = PCs(res["pcs0"])
    pre = res["init"]
    last_o = None
    merges = removes_applied = adds_applied = 0

    def maps(state):
        crdt = fn_dict(state["crdt"])
        add, rem = [], []
        for a in range(1, n + 1):
            rec = fn_dict(crdt[a])
            am, rm = fn_dict(rec["addMap"]), fn_dict(rec["remMap"])
            add.append([[nat(fn_dict(am[e])[k]) for k in range(1, n + 1)] for e in range(ne)])
            rem.append([[nat(fn_dict(rm[e])[k]) for k in range(1, n + 1)] for e in range(ne)])
        return add, rem

    def cmds(state):
        q = []
        for m in tup(state["in"]):
            d = fn_dict(m)
            if d["cmd"] not in (1, 2):
                raise Unencodable(json.dumps(m))
            q.append((d["cmd"] == 1, nat(d["elem"])))
        return q

    try:
        if cmds(pre) != inp:
            breaks.append("the harness's input queue is not the decoded INPUT")
        for i, ob in enumerate(res["steps"]):
            f, br = generic_failures(i, ob)
            fails += f; breaks += br
            if br:
                break
            proc, oc = ob["proc"], ob["outcome"]
            post = ob["state"]
            if proc != "merge":
                pcs.update(ob)
            add, rem = maps(post)
            add0, rem0 = maps(pre)
            q = cmds(post)
            query = lambda A, R, a: [e for e in range(ne) if not all(A[a][e][k] <= R[a][e][k] for k in range(n))]
            # oracle: an element's add and remove clocks are never both non-null; the answer is the query of the replica
            for a in range(n):
                for e in range(ne):
                    if any(add[a][e]) and any(rem[a][e]):
                        fails.append(("shopnode-add-and-remove-clocks", "step %d: crdt[%d] has both an add and a remove clock for element %d" % (i, a + 1, e)))
            if oc != "commit" and post != pre:
                fails.append(("abort-changed-state", "step %d: %s attempt of %s changed the spec state" % (i, oc, proc)))
            if proc == "merge":
                pk = ob["picks"]
                ev = "(EMerge %d %s)" % (nat(pk[0]), "None" if len(pk) < 2 else "(Some %d)" % nat(pk[1]))
                if oc == "commit":
                    merges += 1
                    i1, i2 = pk[0] - 1, pk[1] - 1
                    if add[i1] != add[i2] or rem[i1] != rem[i2]:
                        fails.append(("shopnode-merge-not-equal", "step %d: after Merge(%d, %d) the two replicas differ" % (i, pk[0], pk[1])))
            else:
                p = int(proc[1:])
                ev = "(ENode %d)" % p
                if oc == "commit" and ob["label"] == "ANode.rcvResp":
                    want = query(add0, rem0, p - 1)
                    got = post["out"]["s"] if isinstance(post["out"], dict) and "s" in post["out"] else None
                    if got != want:
                        fails.append(("shopnode-wrong-answer", "step %d: node %d answered %r, Query(crdt[self]) = %r" % (i, p, got, want)))
                if oc == "commit" and ob["label"] == "ANode.nodeLoop":
                    c, e = cmds(pre)[0]
                    adds_applied += c
                    removes_applied += (not c)
                    if q != cmds(pre)[1:]:
                        fails.append(("shopnode-queue", "step %d: nodeLoop did not pop exactly the head of the input queue" % i))
                    inq = e in query(add, rem, p - 1)
                    if inq != c:
                        fails.append(("shopnode-own-command-not-visible", "step %d: node %d applied %s %d but its own query %s it"
                                      % (i, p, "Add" if c else "Remove", e, "lacks" if c else "still has")))
            ov = post["out"]
            outs = "None" if ov is None else "(Some %s)" % coq_nats(ov["s"])
            l3 = lambda rows: vlib.coq_list([vlib.coq_list([coq_nats(v) for v in r]) for r in rows])
            o = "(mkObs %s %s %s %s %s)" % (l3(add), l3(rem), vlib.coq_list(["(%s,%d)" % (vlib.coq_bool(c), e) for c, e in q]), outs,
                                            vlib.coq_list([NPC[pcs.pc["n%d" % k]] for k in range(1, n + 1)]))
            same = oc != "commit" and post == pre and steps and last_o == o
            steps.append("(%s,(%d,%s))" % (ev, OUT[oc], "None" if same else "Some " + o))
            last_o = o
            pre = post
            if oc.startswith("error"):
                break
    except (Unencodable, KeyError, IndexError, TypeError) as e:
        breaks.append("observation outside the typed model's universe: %r" % (e,))
    out["coq"] = "(mkCfg %d %d %s, [%s])" % (n, ne, vlib.coq_list(["(%s,%d)" % (vlib.coq_bool(c), e) for c, e in inp]), ";\n  ".join(steps))
    out["nontrivial"] = merges >= 1 and removes_applied >= 1 and adds_applied >= 1 if n >= 2 else (removes_applied >= 1 and adds_applied >= 1)
    out["stats"] = {"merges": merges, "adds_applied": adds_applied, "removes_applied": removes_applied}
    return out
