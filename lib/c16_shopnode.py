"""C16 / shopcart's interactive archetype ANode (AWORSet with Add AND Remove, shared input queue) + the spec's merge process:
generation, implementation-side oracle, projection for coq/C16/ShopNode.v."""
import json
import vlib
from c16_common import *

NAME = "shopnode"
COQ_MODULE = "C16.ShopNode"
NPC = {"ANode.nodeLoop": "NLoop", "ANode.rcvResp": "NResp"}


def decode_input(cfg):
    ne, code, out = cfg["NumElems"], cfg["INPUT"], []
    for _ in range(cfg["InputLen"]):
        d = code % (2 * ne)
        code //= 2 * ne
        out.append((d % 2 == 0, d // 2))          # (is Add, element)
    return out


class RefORSet:
    """reference add-wins observed-remove set with WHOLE vector clocks (what distsys/resources/aworset.go implements on the pinned tree):
    a write takes the element's observed clock from whichever map holds it, increments the writer's component, and clears the other map"""
    def __init__(self, spec=False):
        # spec=True: the variant shopcart.tla's AWORSet mapping macro writes down instead: crossing from one map to the other copies ONLY
        # the writer's own component of the observed clock, and Merge drops the add clock whenever addk <= remk componentwise
        self.add, self.rem, self.spec = {}, {}, spec

    @staticmethod
    def cmp(a, b):      # -1 LT, 0 EQ, 1 GT, 2 concurrent
        res = 0
        for k in set(a) | set(b):
            x, y = a.get(k, 0), b.get(k, 0)
            if x > y:
                res = 1 if res in (0, 1) else 2
            elif x < y:
                res = -1 if res in (0, -1) else 2
        return res

    def write(self, p, is_add, e):
        mine, other = (self.add, self.rem) if is_add else (self.rem, self.add)
        base = mine.get(e) or other.get(e) or {}
        vc = dict(base)
        if self.spec and not mine.get(e) and other.get(e):
            vc = {p: base.get(p, 0)}
        vc[p] = vc.get(p, 0) + 1
        mine[e] = vc
        other.pop(e, None)

    @staticmethod
    def merged(x, y):
        def mk(a, b):
            out = {e: dict(v) for e, v in a.items()}
            for e, v in b.items():
                out[e] = {k: max(out.get(e, {}).get(k, 0), v.get(k, 0)) for k in set(out.get(e, {})) | set(v)}
            return out
        addk, remk = mk(x.add, y.add), mk(x.rem, y.rem)
        r = RefORSet(x.spec)
        if x.spec:
            for e in set(addk) | set(remk):
                a, b = addk.get(e, {}), remk.get(e, {})
                if all(a.get(k, 0) <= b.get(k, 0) for k in set(a) | set(b)):
                    if any(b.values()):
                        r.rem[e] = b
                else:
                    r.add[e] = a
            return r
        r.add = {e: v for e, v in addk.items() if e not in remk or RefORSet.cmp(v, remk[e]) != -1}
        r.rem = {e: v for e, v in remk.items() if e not in addk or RefORSet.cmp(addk[e], v) == -1}
        return r

    def read(self):
        if self.spec:
            return sorted(e for e, v in self.add.items() if not all(v.get(k, 0) <= self.rem.get(e, {}).get(k, 0) for k in v))
        return sorted(e for e, v in self.add.items() if e not in self.rem or RefORSet.cmp(v, self.rem[e]) != -1)


def gen_readd(rng):
    """one element, 2-3 nodes, a long add / remove sequence and frequent merges: re-adds after a remove that was seen elsewhere"""
    n = rng.choice([2, 2, 3])
    ln = rng.randint(9, 12)
    cfg = {"NumNodes": n, "NumElems": 1, "InputLen": ln, "INPUT": rng.randrange(2 ** ln)}
    return {"system": NAME, "kind": "auto", "cfg": cfg, "auto": {"seed": rng.getrandbits(60) | 1, "steps": 9 * ln + 10}}


def gen(rng):
    if rng.random() < 0.5:
        return gen_readd(rng)
    n = rng.choice([1, 2, 2, 3, 3])
    ne = rng.choice([1, 2, 2, 3])
    ln = rng.randint(2, 9)
    cfg = {"NumNodes": n, "NumElems": ne, "InputLen": ln, "INPUT": rng.randrange((2 * ne) ** ln)}
    if rng.random() < 0.65:
        return {"system": NAME, "kind": "auto", "cfg": cfg, "auto": {"seed": rng.getrandbits(60) | 1, "steps": 6 * ln + 10}}
    sched = []
    for _ in range(rng.randint(3 * ln, 6 * ln + 8)):
        if rng.random() < 0.45:
            sched.append(["merge", [rng.getrandbits(30), rng.getrandbits(30)]])
        else:
            sched.append(["n%d" % rng.randint(1, n), []])
    return {"system": NAME, "kind": "blind", "cfg": cfg, "sched": sched}


def analyse(case, res):
    cfg = case["cfg"]
    n, ne = cfg["NumNodes"], cfg["NumElems"]
    inp = decode_input(cfg)
    fails, breaks, steps = [], [], []
    out = {"fails": fails, "breaks": breaks, "coq": None, "nontrivial": False, "stats": {},
           "explicit": {"system": NAME, "kind": case.get("kind", "corpus"), "cfg": cfg, "sched": explicit_sched(res)}}
    if res.get("err"):
        breaks.append("harness error: " + res["err"])
        return out
    pcs = PCs(res["pcs0"])
    pre = res["init"]
    last_o = None
    merges = removes_applied = adds_applied = 0
    ref = {a: RefORSet() for a in range(1, n + 1)}       # reference OR-set per node, fed the same commands and merges
    sref = {a: RefORSet(True) for a in range(1, n + 1)}  # the spec macro's variant, likewise
    know = {a: frozenset() for a in range(1, n + 1)}     # which committed commands each replica has incorporated
    read_of = {}                                          # knowledge -> what the deployment type read with exactly that knowledge
    spec_differs = 0
    spec_known = False

    def maps(state):
        crdt = fn_dict(state["crdt"])
        add, rem = [], []
        for a in range(1, n + 1):
            rec = fn_dict(crdt[a])
            am, rm = fn_dict(rec["addMap"]), fn_dict(rec["remMap"])
            add.append([[nat(fn_dict(am[e])[k]) for k in range(1, n + 1)] for e in range(ne)])
            rem.append([[nat(fn_dict(rm[e])[k]) for k in range(1, n + 1)] for e in range(ne)])
        return add, rem

    def cmds(state):
        q = []
        for m in tup(state["in"]):
            d = fn_dict(m)
            if d["cmd"] not in (1, 2):
                raise Unencodable(json.dumps(m))
            q.append((d["cmd"] == 1, nat(d["elem"])))
        return q

    try:
        if cmds(pre) != inp:
            breaks.append("the harness's input queue is not the decoded INPUT")
        for i, ob in enumerate(res["steps"]):
            f, br = generic_failures(i, ob)
            fails += f; breaks += br
            if br:
                break
            proc, oc = ob["proc"], ob["outcome"]
            post = ob["state"]
            if proc != "merge":
                pcs.update(ob)
            add, rem = maps(post)
            add0, rem0 = maps(pre)
            q = cmds(post)
            query = lambda A, R, a: [e for e in range(ne) if not all(A[a][e][k] <= R[a][e][k] for k in range(n))]
            # oracle: an element's add and remove clocks are never both non-null; the answer is the query of the replica
            for a in range(n):
                for e in range(ne):
                    if any(add[a][e]) and any(rem[a][e]):
                        fails.append(("shopnode-add-and-remove-clocks", "step %d: crdt[%d] has both an add and a remove clock for element %d" % (i, a + 1, e)))
            # the deployment's CRDT type (resources.AWORSet, cmd/c16 keeps one real value per node in step: "shadow")
            if oc == "commit" and proc == "merge":
                i1, i2 = ob["picks"][0], ob["picks"][1]
                mm = RefORSet.merged(ref[i1], ref[i2])
                ref[i1], ref[i2] = mm, RefORSet.merged(mm, mm)
                sm = RefORSet.merged(sref[i1], sref[i2])
                sref[i1], sref[i2] = sm, RefORSet.merged(sm, sm)     # two objects: a later write must not alias
                know[i1] = know[i2] = know[i1] | know[i2]
            elif oc == "commit" and ob["label"] == "ANode.nodeLoop":
                pp = int(proc[1:])
                c0, e0 = cmds(pre)[0]
                ref[pp].write(pp, c0, e0)
                sref[pp].write(pp, c0, e0)
                know[pp] = know[pp] | {i}
            sh = post.get("shadow")
            if sh is not None:
                shd = fn_dict(sh)
                for a in range(n):
                    real, spec, want = sorted(shd[a + 1]["s"]), query(add, rem, a), ref[a + 1].read()
                    if real != want:
                        fails.append(("shopnode-deployment-aworset-differs",
                                      "step %d: after the same commands and merges node %d's resources.AWORSet reads %r, an add-wins observed-remove set reads %r"
                                      % (i, a + 1, real, want)))
                        break
                    seen = read_of.setdefault(know[a + 1], (real, i, a + 1))
                    if seen[0] != real:
                        fails.append(("shopnode-deployment-equal-knowledge-different-read",
                                      "step %d: node %d's resources.AWORSet reads %r; with exactly the same commands incorporated node %d read %r at step %d"
                                      % (i, a + 1, real, seen[2], seen[0], seen[1])))
                        break
                    if real != spec:
                        spec_differs += 1
                        if spec == sref[a + 1].read() and not spec_known:
                            # the generated code did exactly what the spec's macro says; the macro itself is not an observed-remove set
                            spec_known = True
                            fails.append(("shopcart-spec-aworset-own-component-only",
                                          "step %d: node %d: the spec's AWORSet macro reads %r where the deployment's resources.AWORSet (and an add-wins observed-remove "
                                          "set) reads %r" % (i, a + 1, spec, real)))
            if oc != "commit" and {k: v for k, v in post.items() if k != "shadow"} != {k: v for k, v in pre.items() if k != "shadow"}:
                fails.append(("abort-changed-state", "step %d: %s attempt of %s changed the spec state" % (i, oc, proc)))
            if proc == "merge":
                pk = ob["picks"]
                ev = "(EMerge %d %s)" % (nat(pk[0]), "None" if len(pk) < 2 else "(Some %d)" % nat(pk[1]))
                if oc == "commit":
                    merges += 1
                    i1, i2 = pk[0] - 1, pk[1] - 1
                    if add[i1] != add[i2] or rem[i1] != rem[i2]:
                        fails.append(("shopnode-merge-not-equal", "step %d: after Merge(%d, %d) the two replicas differ" % (i, pk[0], pk[1])))
            else:
                p = int(proc[1:])
                ev = "(ENode %d)" % p
                if oc == "commit" and ob["label"] == "ANode.rcvResp":
                    want = query(add0, rem0, p - 1)
                    got = post["out"]["s"] if isinstance(post["out"], dict) and "s" in post["out"] else None
                    if got != want:
                        fails.append(("shopnode-wrong-answer", "step %d: node %d answered %r, Query(crdt[self]) = %r" % (i, p, got, want)))
                if oc == "commit" and ob["label"] == "ANode.nodeLoop":
                    c, e = cmds(pre)[0]
                    adds_applied += c
                    removes_applied += (not c)
                    if q != cmds(pre)[1:]:
                        fails.append(("shopnode-queue", "step %d: nodeLoop did not pop exactly the head of the input queue" % i))
                    inq = e in query(add, rem, p - 1)
                    if inq != c:
                        fails.append(("shopnode-own-command-not-visible", "step %d: node %d applied %s %d but its own query %s it"
                                      % (i, p, "Add" if c else "Remove", e, "lacks" if c else "still has")))
            ov = post["out"]
            outs = "None" if ov is None else "(Some %s)" % coq_nats(ov["s"])
            l3 = lambda rows: vlib.coq_list([vlib.coq_list([coq_nats(v) for v in r]) for r in rows])
            o = "(mkObs %s %s %s %s %s)" % (l3(add), l3(rem), vlib.coq_list(["(%s,%d)" % (vlib.coq_bool(c), e) for c, e in q]), outs,
                                            vlib.coq_list([NPC[pcs.pc["n%d" % k]] for k in range(1, n + 1)]))
            same = oc != "commit" and steps and last_o == o
            steps.append("(%s,(%d,%s))" % (ev, OUT[oc], "None" if same else "Some " + o))
            last_o = o
            pre = post
            if oc.startswith("error"):
                break
    except (Unencodable, KeyError, IndexError, TypeError) as e:
        breaks.append("observation outside the typed model's universe: %r" % (e,))
    out["coq"] = "(mkCfg %d %d %s, [%s])" % (n, ne, vlib.coq_list(["(%s,%d)" % (vlib.coq_bool(c), e) for c, e in inp]), ";\n  ".join(steps))
    out["nontrivial"] = merges >= 1 and removes_applied >= 1 and adds_applied >= 1 if n >= 2 else (removes_applied >= 1 and adds_applied >= 1)
    out["stats"] = {"merges": merges, "adds_applied": adds_applied, "removes_applied": removes_applied,
                    "steps_where_spec_AWORSet_macro_and_resources_AWORSet_read_differently": spec_differs}
    return out
