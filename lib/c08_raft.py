"""Shared machinery of the C08/C09 checks: driving harness/cmd/c08 (raftstep), decoding its observations,
flattening the spec state exactly like coq/C08/Model.v `digest`, printing events as Coq terms, and the
implementation-side oracles (Raft invariants evaluated on the Go state).

Model events (Python tuples, first component = constructor of C08.Model.event):
  ("EServerLoop", i, k) ("EHandleMsg", i, br, fdv) ("ERVTimeout", i, lt, len) ("ERVSend", i, br, fdv)
  ("EAELoop", i, chbr) ("EAESend", i, br, fdv) ("EAdvance", i) ("EApply", i) ("EBecomeLeader", i, chbr)
  ("EClientLoop", c, (type, key, val)) ("EClientSnd", c, srvpick, br, fdv) ("EClientRcv", c, k)
  ("EClientTimeout", c, fdv, len, tmo) ("ECrash", i) ("EFdUpdate", i)
"""
import json, os, subprocess, sys
import vlib

P61 = 2305843009213693951


def hash_digest(l):
    acc = 7
    for x in l:
        acc = (acc * 1000003 + x + 1) & P61
    return acc


# ------------------------------------------------------------------ decoding steplib's canonical JSON

def dec(x):
    """steplib.Enc JSON -> python: tuple -> list, set -> sorted list (tagged), function/record -> dict"""
    if isinstance(x, dict):
        if "t" in x:
            return [dec(e) for e in x["t"]]
        if "s" in x:
            return ("set", [dec(e) for e in x["s"]])
        if "f" in x:
            return {_key(dec(k)): dec(v) for k, v in x["f"]}
    return x


def _key(k):
    return k if isinstance(k, (int, str, bool)) or k is None else json.dumps(k)


def strnum(s):
    """'k3' / 'v7' -> 3 / 7 ; Nil (0) -> 0"""
    if isinstance(s, int):
        return s
    if s is None:
        return 0
    return int(s[1:])


def setlist(x):
    return sorted(x[1]) if isinstance(x, tuple) else sorted(x)


# ------------------------------------------------------------------ digest (mirror of Model.digest)

def d_cmd(c):
    return [c["idx"], 0 if c["type"] == "put" else 1, strnum(c["key"]), strnum(c.get("value", 0))]


def d_entry(e):
    return [e["term"]] + d_cmd(e["cmd"]) + [e["client"]]


def d_list(f, l):
    out = [len(l)]
    for x in l:
        out += f(x)
    return out


def d_msg(m):
    t = m["mtype"]
    if t == "rvq":
        return [1, m["mterm"], m["mlastLogTerm"], m["mlastLogIndex"], m["msource"], m["mdest"]]
    if t == "rvp":
        return [2, m["mterm"], int(m["mvoteGranted"]), m["msource"], m["mdest"]]
    if t == "apq":
        return [3, m["mterm"], m["mprevLogIndex"], m["mprevLogTerm"]] + d_list(d_entry, m["mentries"]) + \
               [m["mcommitIndex"], m["msource"], m["mdest"]]
    if t == "app":
        return [4, m["mterm"], int(m["msuccess"]), m["mmatchIndex"], m["msource"], m["mdest"]]
    if t in ("cpq", "cgq"):
        if (t == "cpq") != (m["mcmd"]["type"] == "put"):
            raise ValueError("client request type/cmd mismatch: %r" % (m,))
        return [5] + d_cmd(m["mcmd"]) + [m["msource"], m["mdest"]]
    if t in ("cpp", "cgp"):
        r = m["mresponse"]
        return [6, 0 if t == "cpp" else 1, int(m["msuccess"]), r["idx"], strnum(r["key"]), strnum(r.get("value", 0)),
                int(r.get("ok", False)), m["mleaderHint"], m["msource"], m["mdest"]]
    raise ValueError("unknown message %r" % (m,))


ROLE = {"follower": 0, "candidate": 1, "leader": 2}
CPC = {"AClient.clientLoop": 0, "AClient.sndReq": 1, "AClient.rcvResp": 2}


class World:
    """python mirror of the Go side: globals (decoded), per-proc locals and pcs"""

    def __init__(self, params, init_state):
        self.p = params
        self.n, self.nc = params["n"], params["nc"]
        self.g = {k: dec(v) for k, v in init_state.items()}
        self.locals = {}
        self.pc = {}
        self.hist = []      # oldest first: ("inv", c, idx, (type,key,val)) / ("resp", c, idx, type, key, val, ok)
        for i in self.servers():
            self.pc["s%d.0" % i] = "AServer.serverLoop"
            self.pc["s%d.1" % i] = "AServerRequestVote.serverRequestVoteLoop"
            self.pc["s%d.2" % i] = "AServerAppendEntries.serverAppendEntriesLoop"
            self.pc["s%d.3" % i] = "AServerAdvanceCommitIndex.serverAdvanceCommitIndexLoop"
            self.pc["s%d.4" % i] = "AServerBecomeLeader.serverBecomeLeaderLoop"
            self.pc["x%d" % i] = "AServerCrasher.serverCrash" if i in params.get("crashers", []) else None
        for j in range(1, self.nc + 1):
            self.pc["c%d" % j] = "AClient.clientLoop"

    def servers(self):
        return range(1, self.n + 1)

    def client_ids(self):
        return [6 * self.n + j for j in range(1, self.nc + 1)]

    def apply(self, out):
        for k, v in out.get("state", {}).items():
            self.g[k] = dec(v)
        proc = out["proc"]
        if out.get("locals") is not None:
            self.locals[proc] = {k: dec(v) for k, v in out["locals"].items()}
        if out["outcome"] in ("commit", "abort"):
            self.pc[proc] = out["pc"]
        elif out["outcome"] == "done":
            self.pc[proc] = "Done"

    def loc(self, proc, name, default=None):
        return self.locals.get(proc, {}).get(name, default)

    def queue(self, d):
        return self.g["network"][d]["queue"]

    def digest(self):
        g, n = self.g, self.n
        out = []
        for i in self.servers():
            out += [ROLE[g["state"][i]], g["currentTerm"][i], g["votedFor"][i]] + d_list(d_entry, g["log"][i]) + [g["commitIndex"][i]]
            out += [g["nextIndex"][i][j] for j in self.servers()] + [g["matchIndex"][i][j] for j in self.servers()]
            out += d_list(lambda x: [x], setlist(g["votesResponded"][i])) + d_list(lambda x: [x], setlist(g["votesGranted"][i]))
            out += [g["leader"][i]]
            sm = g["sm"][i] if isinstance(g["sm"][i], dict) else {}
            out += d_list(lambda kv: [kv[0], kv[1]], sorted((strnum(k), strnum(v)) for k, v in sm.items()))
            out += d_list(lambda x: [x], sorted(strnum(k) for k in setlist(g["smDomain"][i])))
            out += d_list(d_entry, g["plog"][i]) + [len(g["appendEntriesCh"][i]), len(g["becomeLeaderCh"][i])]
            p0 = "s%d.0" % i
            out += [int(self.pc[p0] == "AServer.handleMsg")]
            m = self.loc(p0, "AServer.m")
            out += [0] if m is None else [1] + d_msg(m)
            p1 = "s%d.1" % i
            out += [int(self.pc[p1] == "AServerRequestVote.requestVoteLoop"), self.loc(p1, "AServerRequestVote.idx", 1)]
            p2 = "s%d.2" % i
            idx2 = self.loc(p2, "AServerAppendEntries.idx")
            out += [int(self.pc[p2] == "AServerAppendEntries.appendEntriesLoop"), 0 if idx2 is None else idx2]
            p3 = "s%d.3" % i
            out += [int(self.pc[p3] == "AServerAdvanceCommitIndex.applyLoop"), self.loc(p3, "AServerAdvanceCommitIndex.newCommitIndex", 0)]
        for d in list(self.servers()) + self.client_ids():
            out += [int(g["network"][d]["enabled"])] + d_list(d_msg, g["network"][d]["queue"])
        out += [int(g["fd"][i]) for i in self.servers()] + [int(g["leaderTimeout"])]
        for j in range(1, self.nc + 1):
            pr = "c%d" % j
            out += [CPC[self.pc[pr]], self.loc(pr, "AClient.leader", 0)]
            r = self.loc(pr, "AClient.req")
            out += [0] if r is None else [1, 0 if r["type"] == "put" else 1, strnum(r["key"]), strnum(r.get("value", 0))]
            out += [self.loc(pr, "AClient.reqIdx", 0)]
        for i in self.servers():
            pcx = self.pc.get("x%d" % i)
            out += [{None: 0, "AServerCrasher.serverCrash": 0, "AServerCrasher.fdUpdate": 1}.get(pcx, 2)]
        out += [len(self.hist)]
        return out

    # ---------------- link discipline (mirror of Model.same_link / deliverable)
    @staticmethod
    def msg_class(m):
        t = m["mtype"]
        if t == "rvq":
            return 1
        if t == "apq":
            return 2
        if t in ("rvp", "app"):
            return 0
        if t in ("cpq", "cgq"):
            return 6
        return 3 if m["msuccess"] else 0

    def deliverable(self, d):
        q = self.queue(d)
        if not self.p["fifo"]:
            return list(range(len(q)))
        out, seen = [], set()
        for k, m in enumerate(q):
            l = (m["msource"], self.msg_class(m))
            if l not in seen:
                out.append(k)
                seen.add(l)
        return out


# ------------------------------------------------------------------ driving the harness

class Harness:
    def __init__(self, binary="c08"):
        self.p = subprocess.Popen([os.path.join(vlib.BIN, binary)], stdin=subprocess.PIPE, stdout=subprocess.PIPE,
                                  stderr=subprocess.PIPE, text=True, bufsize=1)

    def call(self, obj):
        self.p.stdin.write(json.dumps(obj) + "\n")
        self.p.stdin.flush()
        line = self.p.stdout.readline()
        if not line:
            raise RuntimeError("harness died: " + self.p.stderr.read()[-2000:])
        return json.loads(line)

    def new(self, params):
        r = self.call(dict(params, cmd="new"))
        if not r.get("ok"):
            raise RuntimeError("harness new failed: %r" % (r,))
        return World(params, r["state"])

    def step(self, proc, choices):
        return self.call({"cmd": "step", "proc": proc, "choices": choices})

    def close(self):
        try:
            self.p.stdin.close()
            self.p.wait(timeout=20)
        except Exception:
            self.p.kill()


REQ_TYPES = ("put", "get")


def req_index(params, r):
    """index of request r = (type, key, val) in raftstep.allReqs"""
    t, k, v = r
    if t == "put":
        return (k - 1) * params["vals"] + (v - 1)
    return params["keys"] * params["vals"] + (k - 1)


def req_of_index(params, i):
    kv = params["keys"] * params["vals"]
    if i < kv:
        return ("put", i // params["vals"] + 1, i % params["vals"] + 1)
    return ("get", i - kv + 1, 0)


def proc_of(ev, n):
    k = ev[0]
    srvmap = {"EServerLoop": 0, "EHandleMsg": 0, "ERVTimeout": 1, "ERVSend": 1, "EAELoop": 2, "EAESend": 2,
              "EAdvance": 3, "EApply": 3, "EBecomeLeader": 4}
    if k in srvmap:
        return "s%d.%d" % (ev[1], srvmap[k])
    if k in ("ECrash", "EFdUpdate"):
        return "x%d" % ev[1]
    return "c%d" % (ev[1] - 6 * n)


def choices_of(ev, world, pickidx=0):
    """the vector of dictated fairness-counter values for a model event (consultation order of the Go body + macros).
    pickidx: index handed to `with (srv \\in ServerSet)` of AClient.sndReq (which element it denotes is observed)."""
    k = ev[0]
    b = lambda x: 1 if x else 0
    if k in ("EServerLoop",):
        return [ev[2]]
    if k in ("EHandleMsg", "ERVSend", "EAESend"):
        return [ev[2], b(ev[3])]
    if k == "ERVTimeout":
        return [0 if ev[2] else 1, ev[3]]
    if k in ("EAELoop", "EBecomeLeader"):
        return [ev[2]]
    if k in ("EAdvance", "EApply", "ECrash", "EFdUpdate"):
        return []
    if k == "EClientLoop":
        return [req_index(world.p, ev[2])]
    if k == "EClientSnd":
        pr = proc_of(ev, world.n)
        pre = [pickidx] if world.loc(pr, "AClient.leader", 0) == 0 else []
        return pre + [ev[3], b(ev[4])]
    if k == "EClientRcv":
        return [0, ev[2]]
    if k == "EClientTimeout":
        return [1, b(ev[2]), ev[3], 0 if ev[4] else 1]
    raise ValueError(ev)


LABEL_EVENT = {
    "AServer.serverLoop": "EServerLoop", "AServer.handleMsg": "EHandleMsg",
    "AServerRequestVote.serverRequestVoteLoop": "ERVTimeout", "AServerRequestVote.requestVoteLoop": "ERVSend",
    "AServerAppendEntries.serverAppendEntriesLoop": "EAELoop", "AServerAppendEntries.appendEntriesLoop": "EAESend",
    "AServerAdvanceCommitIndex.serverAdvanceCommitIndexLoop": "EAdvance", "AServerAdvanceCommitIndex.applyLoop": "EApply",
    "AServerBecomeLeader.serverBecomeLeaderLoop": "EBecomeLeader",
    "AClient.clientLoop": "EClientLoop", "AClient.sndReq": "EClientSnd", "AClient.rcvResp": "EClientRcv",
    "AServerCrasher.serverCrash": "ECrash", "AServerCrasher.fdUpdate": "EFdUpdate",
}
DEFAULT_ARGS = {
    "EServerLoop": (0,), "EHandleMsg": (0, True), "ERVTimeout": (True, 0), "ERVSend": (0, True), "EAELoop": (0,), "EAESend": (0, True),
    "EAdvance": (), "EApply": (), "EBecomeLeader": (0,), "EClientLoop": (("get", 1, 0),), "EClientSnd": (1, 0, True),
    "EClientRcv": (0,), "ECrash": (), "EFdUpdate": (),
}


def observed_event(ev, out, world_before):
    """rebuild the model event from what the implementation reports: the LABEL that actually ran (a scripted event may address
    an archetype that is at its other label), the choices it consulted, the elements it read/wrote;
    `ev` supplies only what the run cannot show (values never consulted keep the intended ones)"""
    actual = LABEL_EVENT.get(out.get("label"))
    if actual is not None and actual != ev[0] and not (actual == "EClientRcv" and ev[0] == "EClientTimeout"):
        ev = (actual, ev[1]) + DEFAULT_ARGS[actual]
    ch = {}
    for cid, ceil, idx in out["ch"]:
        ch.setdefault(cid, []).append((ceil, idx))
    k = ev[0]

    def either(prefix, default):
        for cid in ch:
            if cid.startswith(prefix):
                return ch[cid][0][1]
        return default

    def fdv(default):
        return (ch["m.fd"][0][1] == 1) if "m.fd" in ch else default
    if k == "EServerLoop":
        return (k, ev[1], ch["m.net.read"][0][1] if "m.net.read" in ch else ev[2])
    if k == "EHandleMsg":
        return (k, ev[1], either("AServer.handleMsg.", ev[2]), fdv(ev[3]))
    if k == "ERVSend":
        return (k, ev[1], either("AServerRequestVote.requestVoteLoop.", ev[2]), fdv(ev[3]))
    if k == "EAESend":
        return (k, ev[1], either("AServerAppendEntries.appendEntriesLoop.", ev[2]), fdv(ev[3]))
    if k == "ERVTimeout":
        lt = (ch["m.lt"][0][1] == 0) if "m.lt" in ch else ev[2]
        ln = ch["m.netLen"][0][1] if "m.netLen" in ch else ev[3]
        return (k, ev[1], lt, ln)
    if k in ("EAELoop", "EBecomeLeader"):
        return (k, ev[1], ch["m.ch"][0][1] if "m.ch" in ch else ev[2])
    if k == "EClientLoop":
        return (k, ev[1], req_of_index(world_before.p, ch["m.req"][0][1]) if "m.req" in ch else ev[2])
    if k == "EClientSnd":
        pick = ev[2]
        for e in out.get("elems", []):
            if e["kind"] == "w" and e["name"] == "AClient.leader":
                pick = dec(e["val"])
                break
        return (k, ev[1], pick, either("AClient.sndReq.0", either("AClient.sndReq.1", ev[3])), fdv(ev[4]))
    if k in ("EClientRcv", "EClientTimeout"):
        br = either("AClient.rcvResp.", 0 if k == "EClientRcv" else 1)
        if br == 0:
            return ("EClientRcv", ev[1], ch["m.net.read"][0][1] if "m.net.read" in ch else (ev[2] if k == "EClientRcv" else 0))
        tm = (ch["m.tmo"][0][1] == 0) if "m.tmo" in ch else (ev[4] if k == "EClientTimeout" else False)
        ln = ch["m.netLen"][0][1] if "m.netLen" in ch else (ev[3] if k == "EClientTimeout" else 0)
        return ("EClientTimeout", ev[1], fdv(ev[2] if k == "EClientTimeout" else False), ln, tm)
    return ev


OUTCOME_CODE = {"commit": 0, "abort": 1, "error:assert": 2, "error:tlatype": 3}


def record_history(world, ev, out):
    """history events as the client's environment sees them: reads of reqCh, writes of respCh"""
    if out["outcome"] != "commit":
        return
    for e in out.get("elems", []):
        if e["name"] == "AClient.reqCh" and e["kind"] == "r":
            r = dec(e["val"])
            c = ev[1]
            idx = world.loc(proc_of(ev, world.n), "AClient.reqIdx", 0)
            world.hist.append(("inv", c, idx, (r["type"], strnum(r["key"]), strnum(r.get("value", 0)))))
        if e["name"] == "AClient.respCh" and e["kind"] == "w":
            m = dec(e["val"])
            r = m["mresponse"]
            world.hist.append(("resp", ev[1], r["idx"], "put" if m["mtype"] == "cpp" else "get", strnum(r["key"]),
                               strnum(r.get("value", 0)), bool(r.get("ok", False))))


def do_event(h, world, ev, pickidx=0):
    """run one model event on the implementation; returns (observed model event, outcome string, raw out)"""
    proc = proc_of(ev, world.n)
    out = h.step(proc, choices_of(ev, world, pickidx))
    oev = observed_event(ev, out, world)
    world.apply(out)
    record_history(world, oev, out)
    return oev, out["outcome"], out


# ------------------------------------------------------------------ Coq printing

def coq_bool(b):
    return "true" if b else "false"


def coq_event(ev):
    k = ev[0]
    if k == "EClientLoop":
        t, key, val = ev[2]
        return "EClientLoop %d (mkReq %s %d %d)" % (ev[1], "CPut" if t == "put" else "CGet", key, val)
    args = []
    for a in ev[1:]:
        args.append(coq_bool(a) if isinstance(a, bool) else str(a))
    return "%s %s" % (k, " ".join(args)) if args else k


def coq_cfg(p):
    return "(mkConfig %d %d %d %s %s true)" % (p["n"], p["nc"], p["buf"], coq_bool(p["fifo"]), coq_bool(p["explorefail"]))


def coq_case(p, steps):
    """steps: list of (event, code, hash, full_digest_or_None)"""
    items = []
    for ev, code, hv, full in steps:
        f = "None" if full is None else "(Some [%s])" % "; ".join("%d%%N" % x for x in full)
        items.append("(%s, %d, %d%%N, %s)" % (coq_event(ev), code, hv, f))
    return "(%s,\n [%s])" % (coq_cfg(p), ";\n  ".join(items))


# ------------------------------------------------------------------ implementation-side oracle (spec invariants on the Go state)

def log_at(log, k):
    return log[k - 1] if 1 <= k <= len(log) else None


def invariants(world):
    """returns list of (signature, what) violated in the current Go state; statements are those of the property:
    ElectionSafety, LogMatching, StateMachineSafety, ApplyLogOK (verbatim from the spec)."""
    g = world.g
    S = list(world.servers())
    bad = []
    for i in S:
        for j in S:
            if i < j and g["currentTerm"][i] == g["currentTerm"][j] and g["state"][i] == "leader" and g["state"][j] == "leader":
                bad.append(("two-leaders-in-one-term", "servers %d and %d are both Leader in term %d" % (i, j, g["currentTerm"][i])))
            if i < j:
                li, lj = g["log"][i], g["log"][j]
                for k in range(min(len(li), len(lj)), 0, -1):
                    if li[k - 1]["term"] == lj[k - 1]["term"] and li[:k] != lj[:k]:
                        bad.append(("log-matching", "logs of %d and %d agree on the term at index %d but differ below" % (i, j, k)))
                        break
                for k in range(1, min(g["commitIndex"][i], g["commitIndex"][j]) + 1):
                    if log_at(li, k) is None or log_at(li, k) != log_at(lj, k):
                        bad.append(("state-machine-safety", "servers %d and %d committed different entries at index %d" % (i, j, k)))
                        break
                if g["commitIndex"][i] == g["commitIndex"][j] and (g["sm"][i] != g["sm"][j] or setlist(g["smDomain"][i]) != setlist(g["smDomain"][j])):
                    bad.append(("apply-log", "servers %d and %d have commitIndex %d but different stores" % (i, j, g["commitIndex"][i])))
    return bad


def spec_leader_completeness(world):
    """LeaderCompleteness exactly as written in raftkvs.tla (NOT what the property states; reported as information)"""
    g = world.g
    for i in world.servers():
        for idx in range(1, min(g["commitIndex"][i], len(g["log"][i])) + 1):
            e = g["log"][i][idx - 1]
            for j in world.servers():
                if g["state"][j] == "leader" and g["currentTerm"][j] >= e["term"]:
                    if log_at(g["log"][j], idx) != e:
                        return (i, idx, j)
    return None


class CommitTracker:
    """the property's leader completeness and leader-append-only, as trace properties of the Go run:
    whenever server i knows index idx committed while its term is T, every Leader of a term >= T (now or later) holds that
    entry at idx; a server that is Leader before and after a step only appends."""

    def __init__(self, world):
        self.known = {}   # idx -> (entry, min term at which some server had it within its commitIndex)
        self.prev = self.snap(world)

    @staticmethod
    def snap(world):
        g = world.g
        return {i: (g["state"][i], g["currentTerm"][i], list(g["log"][i]), g["commitIndex"][i]) for i in world.servers()}

    def check(self, world):
        g = world.g
        bad = []
        cur = self.snap(world)
        for i in world.servers():
            ps, pt, pl, pc_ = self.prev[i]
            cs, ct, cl_, cc = cur[i]
            if cc < pc_:
                bad.append(("commit-index-decreased", "commitIndex of %d went from %d to %d (theorem commit_monotone)" % (i, pc_, cc)))
            if ps == "leader" and cs == "leader" and cl_[:len(pl)] != pl:
                bad.append(("leader-not-append-only", "leader %d rewrote its log" % i))
            if ct < pt:
                bad.append(("term-decreased", "currentTerm of %d went from %d to %d" % (i, pt, ct)))
        self.prev = cur
        for i in world.servers():
            for idx in range(1, g["commitIndex"][i] + 1):
                e = log_at(g["log"][i], idx)
                if e is None:
                    bad.append(("commit-beyond-log", "server %d has commitIndex %d but log length %d" % (i, g["commitIndex"][i], len(g["log"][i]))))
                    break
                if idx in self.known:
                    e0, t0 = self.known[idx]
                    if e0 != e:
                        bad.append(("committed-entry-changed", "index %d committed as %r, server %d now holds %r" % (idx, e0, i, e)))
                    self.known[idx] = (e0, min(t0, g["currentTerm"][i]))
                else:
                    self.known[idx] = (e, g["currentTerm"][i])
        for j in world.servers():
            if g["state"][j] == "leader":
                for idx, (e, t) in self.known.items():
                    if g["currentTerm"][j] >= t and log_at(g["log"][j], idx) != e:
                        bad.append(("leader-completeness", "entry committed at index %d (known in term %d) is missing from leader %d of term %d"
                                    % (idx, t, j, g["currentTerm"][j])))
                        break
        return bad


# ------------------------------------------------------------------ replaying a fixed list of model events

_PICKMAP = {}


def pick_map(h, n):
    """which index of `with (srv \\in ServerSet)` denotes which server (iteration order of the runtime's set): observed"""
    if n in _PICKMAP:
        return _PICKMAP[n]
    m = {}
    for idx in range(n):
        w = h.new({"n": n, "nc": 1, "buf": 4, "fifo": True, "explorefail": True, "crashers": [], "keys": 1, "vals": 1})
        c = 6 * n + 1
        do_event(h, w, ("EClientLoop", c, ("put", 1, 1)))
        oev, outc, out = do_event(h, w, ("EClientSnd", c, 0, 0, True), pickidx=idx)
        m[oev[2]] = idx
    h.call({"cmd": "close"})
    _PICKMAP[n] = m
    return m


def replay_events(h, params, events, full_every=1, stop_on_error=True):
    """run model events on the generated Go code; returns (world, steps) with steps = [(observed event, code, hash, digest|None)]"""
    pm = pick_map(h, params["n"]) if any(e[0] == "EClientSnd" for e in events) else {}
    w = h.new(params)
    steps = []
    outs = []
    for k, ev in enumerate(events):
        pick = pm.get(ev[2], 0) if ev[0] == "EClientSnd" else 0
        oev, outcome, out = do_event(h, w, ev, pickidx=pick)
        outs.append(out)
        code = OUTCOME_CODE.get(outcome, 9)
        d = w.digest()
        steps.append((oev, code, hash_digest(d), d if (full_every and k % full_every == 0) else None))
        if code >= 2 and stop_on_error:
            break
    return w, steps, outs


def coq_check_cases(name, cases, timeout=600):
    """cases: list of (params, steps). returns (list of mismatching case indices | None on compile failure, raw output)"""
    body = ("From PGV Require Import C08.Model.\n"
            "Definition cases : list (config * list (event * nat * N * option (list N))) :=\n [" +
            ";\n ".join(coq_case(p, st) for p, st in cases) + "].\n"
            "Definition M := Eval vm_compute in mismatches_from 0 cases.\nPrint M.\n")
    rc, out, err = vlib.coq_eval(name, body, timeout=timeout)
    if rc != 0:
        return None, out + err
    return vlib.parse_nat_list(out, "M"), out


def coq_first_mismatch(name, params, steps):
    body = ("From PGV Require Import C08.Model.\n"
            "Definition c := %s.\nEval vm_compute in check_case (fst c) (snd c).\n" % coq_case(params, steps))
    rc, out, err = vlib.coq_eval(name, body)
    return (out + err).strip()[-400:]
