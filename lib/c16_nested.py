"""C16 / nestedcrdtimpl (ACRDTResource + the spec's Node process): generation, implementation-side oracle
(MonotonicState, StateSanity), projection for coq/C16/Nested.v."""
import json
import vlib
from c16_common import *

NAME = "nestedcrdtimpl"
COQ_MODULE = "C16.Nested"
NPC = {"criticalSection": "NCrit", "readReq": "NReadReq", "readAck": "NReadAck", "abortReq": "NAbortReq", "abortAck": "NAbortAck",
       "writeReq": "NWriteReq", "writeAck": "NWriteAck", "preCommitReq": "NPreReq", "preCommitAck": "NPreAck",
       "commitReq": "NCommitReq", "commitAck": "NCommitAck", "Done": "NDone"}
REQ = {"read_req": "RRead", "abort_req": "RAbort", "precommit_req": "RPre", "commit_req": "RCommit"}
ACK = {"write_ack": "AWrite", "abort_ack": "AAbort", "precommit_ack": "APre", "commit_ack": "ACommit"}


def gen(rng):
    k = rng.choice([1, 2, 2, 3])
    cfg = {"NUM_NODES": k, "BUFFER_SIZE": rng.choice([1, 2, 3]), "NUM_OPS": rng.choice([2, 3, 4, 5])}
    return {"system": NAME, "kind": "auto", "cfg": cfg, "auto": {"seed": rng.getrandbits(60) | 1, "steps": 60 + 45 * k}}


def req_of(x):
    if x is None or x == "EMPTY_CELL":
        return "None"
    d = fn_dict(x)
    t = d["tpe"]
    if t == "write_req":
        return "(Some (RWrite %d))" % nat(d["value"])
    if t in REQ and set(d) == {"tpe"}:
        return "(Some %s)" % REQ[t]
    raise Unencodable(json.dumps(x))


def ack_of(x):
    if x is None or x == "EMPTY_CELL":
        return "None"
    d = fn_dict(x)
    t = d["tpe"]
    if t == "read_ack":
        return "(Some (ARead %d))" % nat(d["value"])
    if t in ACK and set(d) == {"tpe"}:
        return "(Some %s)" % ACK[t]
    raise Unencodable(json.dumps(x))


def analyse(case, res):
    cfg = case["cfg"]
    k, b, nops = cfg["NUM_NODES"], cfg["BUFFER_SIZE"], cfg["NUM_OPS"]
    rids = list(range(k + 1, 2 * k + 1))
    fails, breaks, steps = [], [], []
    out = {"fails": fails, "breaks": breaks, "coq": None, "nontrivial": False,
           "explicit": {"system": NAME, "kind": case.get("kind", "corpus"), "cfg": cfg, "sched": explicit_sched(res)}}
    if res.get("err"):
        breaks.append("harness error: " + res["err"])
        return out
    loc = {}
    pre = res["init"]
    last_o = None
    merges = commits = 0
    sanity_literal_false = 0

    def gcv(x):        # a CRDT value -> counts at the resource ids
        if x is None:
            return [0] * k
        d = fn_dict(x)
        for key, v in d.items():
            if key not in rids or not is_nat(v) or v == 0:
                raise Unencodable(json.dumps(x))
        return [d.get(r, 0) for r in rids]
    prev_states = {r: [0] * k for r in rids}
    try:
        for i, ob in enumerate(res["steps"]):
            f, br = generic_failures(i, ob)
            fails += f; breaks += br
            if br:
                break
            proc, oc = ob["proc"], ob["outcome"]
            post = ob["state"]
            isres = proc.startswith("r")
            if isres and oc == "commit":
                loc[proc] = dict(ob["locals"])
            # event
            if isres:
                r = int(proc[1:])
                branch = ob["choices"][0]["index"] if ob["choices"] else 0
                target = None
                for acc in ob.get("accesses") or []:
                    if acc["kind"] == "w" and acc["var"] == "network":
                        target = acc["idx"][0]
                ev = "(ERes %d %d %s)" % (r, branch, "None" if target is None else "(Some %d)" % nat(target))
                if oc == "commit" and branch == 1:
                    merges += 1
            else:
                n = int(proc[4:])
                branch = ob["choices"][0]["index"] if ob["choices"] else 0
                ev = "(ENode %d %d)" % (n, branch)
                if oc == "commit" and ob["label"] == "commitAck":
                    commits += 1
            # projection
            net, inn, outt = fn_dict(post["network"]), fn_dict(post["in"]), fn_dict(post["out"])
            nodes = fn_dict(post["node"])
            L = lambda r, name, dflt=None: loc.get("r%d" % r, {}).get("ACRDTResource." + name, dflt)
            states = {r: gcv(L(r, "state")) for r in rids}
            rstates = {r: gcv(L(r, "readState")) for r in rids}
            nd = {n: fn_dict(nodes[n]) for n in range(1, k + 1)}
            # implementation-side oracle: MonotonicState
            for r in rids:
                for j in range(k):
                    if states[r][j] < prev_states[r][j]:
                        fails.append(("nested-state-decreased", "step %d: state[%d][%d] went from %d to %d (MonotonicState)" % (i, r, rids[j], prev_states[r][j], states[r][j])))
            prev_states = states
            # StateSanity: the bound it intends (no replica counts more than the writes issued)
            total = sum(nat(nd[n]["writesPending"]) + nat(nd[n]["writesAchieved"]) for n in nd)
            for r in rids:
                if sum(states[r]) > total:
                    fails.append(("nested-replica-exceeds-writes", "step %d: VIEW(state[%d]) = %d > total writes issued %d (StateSanity)" % (i, r, sum(states[r]), total)))
            lit_l = sum(set(sum(states[r]) for r in rids))
            lit_r = sum(set(nat(nd[n]["writesPending"]) + nat(nd[n]["writesAchieved"]) for n in nd))
            if lit_l > lit_r:
                if sanity_literal_false == 0:
                    fails.append(("nestedcrdtimpl-StateSanity-as-written",
                                  "step %d: Sum({VIEW_FN(state[r])}) = %d > Sum({writesPending[n] + writesAchieved[n]}) = %d with views %s and per-node writes %s" % (
                                      i, lit_l, lit_r, [sum(states[r]) for r in rids],
                                      [nat(nd[n]["writesPending"]) + nat(nd[n]["writesAchieved"]) for n in sorted(nd)])))
                sanity_literal_false += 1
            if oc not in ("commit",) and post != pre:
                fails.append(("abort-changed-state", "step %d: %s attempt of %s changed the spec state" % (i, oc, proc)))
            remv = lambda r: sorted(nat(x) for x in (L(r, "remainingPeersToUpdate") or {"s": []})["s"])
            o = "(mkObs %s %s %s %s %s %s %s %s %s %s %s %s %s)" % (
                vlib.coq_list([vlib.coq_list([coq_nats(gcv(m)) for m in tup(net[r])]) for r in rids]),
                vlib.coq_list([req_of(inn[r]) for r in rids]), vlib.coq_list([ack_of(outt[r]) for r in rids]),
                vlib.coq_list([coq_nats(remv(r)) for r in rids]),
                vlib.coq_list([req_of(L(r, "req")) for r in rids]),
                vlib.coq_list([vlib.coq_bool(bool(L(r, "criticalSectionInProgress", False))) for r in rids]),
                vlib.coq_list([coq_nats(states[r]) for r in rids]), vlib.coq_list([coq_nats(rstates[r]) for r in rids]),
                coq_nats([nd[n]["opsDone"] for n in sorted(nd)]), coq_nats([nd[n]["writesPending"] for n in sorted(nd)]),
                coq_nats([nd[n]["writesAchieved"] for n in sorted(nd)]),
                vlib.coq_list([vlib.coq_bool(bool(nd[n]["shouldCommit"])) for n in sorted(nd)]),
                vlib.coq_list([NPC[nd[n]["pc"]] for n in sorted(nd)]))
            same = oc != "commit" and post == pre and steps and last_o == o
            steps.append("(%s,(%d,%s))" % (ev, OUT[oc], "None" if same else "Some " + o))
            last_o = o
            pre = post
            if oc.startswith("error"):
                break
    except (Unencodable, KeyError, IndexError) as e:
        breaks.append("observation outside the typed model's universe: %r" % (e,))
    out["coq"] = "(mkCfg %d %d %d, [%s])" % (k, b, nops, ";\n  ".join(steps))
    out["nontrivial"] = commits >= 1 and (k == 1 or merges >= 1)
    out["stats"] = {"merges": merges, "commits": commits, "states_where_StateSanity_as_written_is_false": sanity_literal_false}
    return out
