"""C09 scenario scripts: client-carrying versions of the C08 corpus scenarios and the leader-change / stale-read scenarios.

The scripts are LIVE: they are run against the harness of the tree under test on every check (positions of messages and who is
leader are looked up in the observed state), tolerate steps that abort or messages that are absent (a changed tree may take another
path) and produce the fixed list of events they executed, which is then re-run, tied to the Coq model and kept as the replay.
Each script = a targeted core + a generic epilogue that lets the current leader replicate/commit/apply everything, delivers the
responses to the clients and makes the second client read every key back."""
import json
import os
import c08_raft as R
import c08_scen as S

CPQ = ("cpq", "cgq")


class Stop(Exception):
    pass


class Live(S.Script):
    """tolerant script: outcomes are not asserted, an absent message is skipped; stops at the first error outcome of the generated code"""
    MAX_EVENTS = 900

    def do(self, ev, expect=None):
        if len(self.events) >= self.MAX_EVENTS:
            raise Stop()
        pick = self.pm.get(ev[2], 0) if ev[0] == "EClientSnd" else 0
        oev, outcome, out = R.do_event(self.h, self.w, ev, pickidx=pick)
        self.events.append(list(ev[:2]) + [list(ev[2])] + list(ev[3:]) if ev[0] == "EClientLoop" else list(ev))
        self.picks.append(pick)
        self.last_outcome = outcome
        if R.OUTCOME_CODE.get(outcome, 9) >= 2:
            raise Stop()
        return out

    def check(self, cond, detail=None):
        pass

    def deliver(self, i, pred=lambda m: True, handle=True, br=0):
        if not self.alive(i):
            return False
        for k in self.w.deliverable(i):
            if pred(self.w.queue(i)[k]):
                self.do(("EServerLoop", i, k))
                if handle and self.w.pc["s%d.0" % i] == "AServer.handleMsg":
                    self.do(("EHandleMsg", i, br, True))
                return True
        return False

    def drain(self, i, pred=lambda m: True):
        k = 0
        while k < 40 and self.deliver(i, pred):
            k += 1

    # ---- observed state
    def alive(self, i):
        return bool(self.w.g["network"][i]["enabled"])

    def alive_servers(self):
        return [i for i in self.w.servers() if self.alive(i)]

    def leader(self):
        g = self.w.g
        ls = [i for i in self.alive_servers() if g["state"][i] == "leader"]
        return max(ls, key=lambda i: g["currentTerm"][i]) if ls else None

    def best_candidate(self):
        g = self.w.g

        def key(i):
            l = g["log"][i]
            return (l[-1]["term"] if l else 0, len(l), -i)
        al = self.alive_servers()
        return max(al, key=key) if al else None

    # ---- protocol rounds
    def try_elect(self, i, voters=None):
        al = self.alive_servers()
        voters = [j for j in (voters if voters is not None else al) if j != i and j in al]
        self.timeout(i, drop=[j for j in self.w.servers() if j != i and j not in voters])
        t = self.w.g["currentTerm"][i]
        for j in voters:
            self.deliver(j, lambda m: m["mtype"] == "rvq" and m["msource"] == i and m["mterm"] == t)
        self.drain(i, lambda m: m["mtype"] == "rvp")
        self.do(("EBecomeLeader", i, 0))
        return self.w.g["state"][i] == "leader"

    def advance(self, i):
        self.do(("EAdvance", i))
        k = 0
        while self.w.pc["s%d.3" % i] == "AServerAdvanceCommitIndex.applyLoop" and k < 40:
            self.do(("EApply", i))
            k += 1

    def replicate(self, i, to=None):
        to = [j for j in (to if to is not None else self.alive_servers()) if j != i]
        self.append_entries(i, to)
        for j in to:
            self.drain(j, lambda m: m["mtype"] == "apq" and m["msource"] == i)
        self.drain(i, lambda m: m["mtype"] == "app")
        self.advance(i)

    # ---- clients
    def cproc(self, c):
        return "c%d" % (c - 6 * self.w.n)

    def cpc(self, c):
        return self.w.pc[self.cproc(c)]

    def pump(self, c):
        """client c receives everything that is waiting for it"""
        k = 0
        while self.cpc(c) == "AClient.rcvResp" and self.w.deliverable(c) and k < 20:
            self.do(("EClientRcv", c, self.w.deliverable(c)[0]))
            k += 1

    def pump_all(self):
        for c in self.w.client_ids():
            self.pump(c)

    def request_pending_somewhere(self, c):
        """is the current request of c in the log of the leader or queued at a live server?"""
        idx = self.w.loc(self.cproc(c), "AClient.reqIdx", 0)
        L = self.leader()
        if L is not None and any(e["client"] == c and e["cmd"]["idx"] == idx for e in self.w.g["log"][L]):
            return True
        for j in self.alive_servers():
            if any(m.get("mtype") in CPQ and m["msource"] == c and m["mcmd"]["idx"] == idx for m in self.w.queue(j)):
                return True
        return False

    def send(self, c, L):
        """sndReq of client c, aimed at server L (a client whose leader hint is a crashed server first gives that one up)"""
        hint = self.w.loc(self.cproc(c), "AClient.leader", 0)
        if hint in list(self.w.servers()) and not self.alive(hint):
            self.do(("EClientSnd", c, L, 1, True))
            self.do(("EClientTimeout", c, True, 0, True))
        self.do(("EClientSnd", c, L, 0, True))

    def drive_client(self, c):
        """one scheduling turn for client c: receive, (re)send"""
        self.pump(c)
        L = self.leader()
        if L is None:
            return
        if self.cpc(c) == "AClient.sndReq":
            self.send(c, L)
        elif self.cpc(c) == "AClient.rcvResp" and not self.w.deliverable(c) and not self.request_pending_somewhere(c):
            self.do(("EClientTimeout", c, False, 0, True))
            self.do(("EClientSnd", c, L, 0, True))

    def quiescent(self):
        g = self.w.g
        L = self.leader()
        if L is None:
            return False
        al = self.alive_servers()
        if any(g["log"][j] != g["log"][L] or g["commitIndex"][j] != len(g["log"][L]) for j in al):
            return False
        if any(g["currentTerm"][j] != g["currentTerm"][L] for j in al):
            return False
        return all(self.cpc(c) == "AClient.clientLoop" for c in self.w.client_ids())

    def settle(self, rounds=10):
        for _ in range(rounds):
            if self.quiescent():
                return True
            L = self.leader()
            if L is None:
                b = self.best_candidate()
                if b is None or not self.try_elect(b):
                    continue
                L = b
            for j in self.alive_servers():
                self.drain(j, lambda m: m.get("mtype") in CPQ)
            self.replicate(L)
            for c in self.w.client_ids():
                self.drive_client(c)
        return self.quiescent()

    def read_back(self, c):
        """client c reads every key through the current leader"""
        for key in range(1, self.params["keys"] + 1):
            if self.cpc(c) != "AClient.clientLoop":
                self.settle(4)
            if self.cpc(c) != "AClient.clientLoop":
                return
            self.do(("EClientLoop", c, ("get", key, 0)))
            L = self.leader()
            self.send(c, L if L is not None else 1)
            self.settle(6)


def put_acked(s, c, key, val, leader, to):
    """client c puts (key,val) at `leader`, which replicates to `to`, commits, applies, answers; c receives the acknowledgement"""
    s.client_request(c, ("put", key, val), leader)
    s.deliver(leader, lambda m: m.get("mtype") == "cpq" and m["msource"] == c)
    s.replicate(leader, to)
    s.pump(c)


# ------------------------------------------------------------------ the two leader-change scenarios (+ one for short candidates)

P3 = {"n": 3, "nc": 2, "buf": 10, "fifo": True, "explorefail": True, "crashers": [], "keys": 1, "vals": 2}


def ack_crash_get(s):
    """leader S1 acknowledges put(k,v1) and put(k,v2) and crashes before the followers learn the last commit index (S3 does not even hold
    the second entry); S2 is elected and is asked get(k) before anything of its term is committed. The answer must wait for the commit
    of the Get entry (value v2); answering from the store S2 has applied so far gives v1."""
    c1, c2 = s.w.client_ids()[:2]
    s.elect(1, [2, 3])
    put_acked(s, c1, 1, 1, 1, [2, 3])
    put_acked(s, c1, 1, 2, 1, [2])
    s.do(("ECrash", 1)); s.do(("EFdUpdate", 1))
    s.try_elect(2, [3])
    s.client_request(c2, ("get", 1, 0), 2)
    s.deliver(2, lambda m: m.get("mtype") == "cgq")
    s.pump(c2)


def ack_crash_short_candidate(s):
    """as above, but the follower that misses the acknowledged entry (same last term, shorter log) stands for election first: S2 must refuse
    (its log is longer), so S3 cannot win; whoever is leader afterwards serves get(k) = v2. A voter that compares with anything but its log
    length lets S3 win and the acknowledged put(k,v2) is overwritten."""
    c1, c2 = s.w.client_ids()[:2]
    s.elect(1, [2, 3])
    put_acked(s, c1, 1, 1, 1, [2, 3])
    put_acked(s, c1, 1, 2, 1, [2])
    s.do(("ECrash", 1)); s.do(("EFdUpdate", 1))
    if s.try_elect(3, [2]):
        s.replicate(3)
        s.replicate(3)


def deposed_leader_get(s):
    """S1 (leader of term 2, partitioned away) is asked get(k) after S3 (term 3) committed and acknowledged put(k,v2): S1 still believes
    it is leader; it may only append the Get and can never commit it; answering from its store gives the overwritten v1."""
    c1, c2 = s.w.client_ids()[:2]
    s.elect(1, [2, 3])
    put_acked(s, c1, 1, 1, 1, [2, 3])
    s.replicate(1, [2, 3])                                   # followers learn commit index 1
    s.try_elect(3, [2])                                      # S1 hears nothing of term 3
    s.client_request(c2, ("put", 1, 2), 3)
    s.deliver(3, lambda m: m.get("mtype") == "cpq")
    s.replicate(3, [2])
    s.pump(c2)
    s.client_request(c1, ("get", 1, 0), 1)                   # c1's leader hint is still S1
    s.deliver(1, lambda m: m.get("mtype") == "cgq")
    s.pump(c1)


def split4(s):
    """4 servers split in two halves {1,2} / {3,4}; election timers fire in both halves; each half is asked to serve a client:
    put(k,v1) at S1 (replicated to S2 only), then get(k) at S3 (which talks to S4 only). Exactly half of the servers is not a quorum: nobody
    may become leader, nothing is acknowledged until the halves heal (epilogue). If half counted as a quorum, S1 and S3 are both
    leader of term 2, the Put is acknowledged by one half and the Get of the other half misses it."""
    c1, c2 = s.w.client_ids()[:2]
    s.try_elect(1, [2])
    s.try_elect(3, [4])
    s.client_request(c1, ("put", 1, 1), 1)
    s.deliver(1, lambda m: m.get("mtype") == "cpq")
    if s.w.g["state"][1] == "leader":
        s.replicate(1, [2])
    s.pump(c1)
    s.client_request(c2, ("get", 1, 0), 3)
    s.deliver(3, lambda m: m.get("mtype") == "cgq")
    if s.w.g["state"][3] == "leader":
        s.replicate(3, [4])
    s.pump(c2)


def overwrite_failover(s):
    """put(k,v1), put(k,v2) acknowledged; the followers apply both when they learn the commit index (ApplyLog / ApplyLogEntry, not the
    leader's applyLoop); the leader crashes; a former follower is elected and serves get(k): v2"""
    S.overwrite_same_key(s.h, mk=lambda h, p: s)
    s.do(("ECrash", 1)); s.do(("EFdUpdate", 1))
    s.try_elect(2, [3])


def stale_leader_core(s):
    """corpus/C08/stale_leader.json (two elections, stale leader of term 3 while term 4 commits), with a second client"""
    import vlib
    c = json.load(open(os.path.join(vlib.VERIF, "corpus", "C08", "stale_leader.json")))
    import c08_walk as W
    for e in c["events"]:
        s.do(W.tuple_event(e))


C08_PARAMS = {
    "old_term_entry": {"n": 3, "nc": 2, "buf": 10, "fifo": True, "explorefail": True, "crashers": [], "keys": 1, "vals": 2},
    "figure8": {"n": 3, "nc": 2, "buf": 10, "fifo": True, "explorefail": True, "crashers": [], "keys": 2, "vals": 2},
    "deposed_leader": {"n": 3, "nc": 2, "buf": 10, "fifo": True, "explorefail": True, "crashers": [], "keys": 2, "vals": 2},
    "split_vote": {"n": 3, "nc": 2, "buf": 10, "fifo": True, "explorefail": True, "crashers": [], "keys": 1, "vals": 2},
    "stale_leader": {"n": 3, "nc": 2, "buf": 10, "fifo": True, "explorefail": True, "crashers": [], "keys": 2, "vals": 2},
}

SCENARIOS = [
    # (name, params, core, what)
    ("ack_crash_get", dict(P3, crashers=[1]), ack_crash_get,
     "leader crashes after acknowledging put(k,v2) before the followers learn the commit index; the new leader serves get(k)"),
    ("deposed_leader_get", P3, deposed_leader_get,
     "a deposed leader is asked get(k) while a newer leader has committed and acknowledged put(k,v2)"),
    ("ack_crash_short_candidate", dict(P3, crashers=[1], keys=2), ack_crash_short_candidate,
     "leader crashes after acknowledging put(k,v2); the follower that misses the entry stands for election first"),
    ("split4", dict(P3, n=4), split4,
     "4 servers split in two halves, both hold an election and serve a client: half of the servers is not a quorum"),
    ("overwrite_failover", dict(P3, crashers=[1]), overwrite_failover,
     "the same key written twice, followers apply both, leader crashes, a former follower serves get(k)"),
    ("stale_matchindex_clients", dict(P3, n=5, crashers=[1, 5]), lambda s: S.stale_matchindex(s.h, mk=lambda h, p: s),
     "corpus/C08 stale_matchindex (re-elected leader, Put on 2 of 5 servers, minority crash) with clients completing their operations"),
    ("figure8_clients", C08_PARAMS["figure8"], lambda s: S.figure8(s.h, mk=lambda h, p: s), "corpus/C08 figure8 with clients completing their operations"),
    ("deposed_leader_clients", C08_PARAMS["deposed_leader"], lambda s: S.deposed_leader(s.h, mk=lambda h, p: s),
     "corpus/C08 deposed_leader with clients completing their operations"),
    ("split_vote_clients", C08_PARAMS["split_vote"], lambda s: S.split_vote(s.h, mk=lambda h, p: s), "corpus/C08 split_vote followed by client operations"),
    ("old_term_entry_clients", C08_PARAMS["old_term_entry"], lambda s: S.old_term_entry(s.h, mk=lambda h, p: s),
     "corpus/C08 old_term_entry with clients completing their operations"),
    ("stale_leader_clients", C08_PARAMS["stale_leader"], stale_leader_core, "corpus/C08 stale_leader with clients completing their operations"),
]


def build(h, name, params, core, what):
    """run the live script; returns the case (fixed list of the events executed)"""
    s = Live(h, dict(params))
    note = None
    try:
        try:
            core(s)
        except (RuntimeError, AssertionError, IndexError, KeyError, TypeError) as e:
            note = "core left early: %r" % (e,)
        s.pump_all()
        s.settle()
        cs = s.w.client_ids()
        if len(cs) >= 2 and s.cpc(cs[1]) == "AClient.clientLoop" and not any(e[0] == "inv" and e[1] == cs[1] for e in s.w.hist):
            # give the second client a write of its own when the core left it idle
            # (on a key nobody wrote, so that it cannot mask a lost write)
            written = set(e[3][1] for e in s.w.hist if e[0] == "inv" and e[3][0] == "put")
            free = [k for k in range(1, params["keys"] + 1) if k not in written]
            if free:
                put_acked(s, cs[1], free[0], 2, s.leader() or 1, None)
                s.settle()
        s.read_back(cs[-1])
        s.read_back(cs[0])
    except Stop:
        note = (note or "") + " stopped (error outcome or event budget)"
    c = {"name": name, "what": what, "params": dict(params), "events": s.events, "picks": s.picks}
    if note:
        c["note"] = note
    return c


def build_all(h):
    return [build(h, *sc) for sc in SCENARIOS]


class AckTracker:
    """acknowledged_put_never_lost on the Go run: when the client hands out the acknowledgement of a Put, its entry is within the commit
    index of some server, at position p; from then on every server whose commit index reaches p holds that entry at p."""

    def __init__(self):
        self.seen = 0
        self.acked = {}      # (client, idx) -> (p, entry)

    def check(self, w):
        g = w.g
        bad = []
        for e in w.hist[self.seen:]:
            if e[0] == "resp" and e[3] == "put":
                c, idx = e[1], e[2]
                found = None
                for i in w.servers():
                    for p in range(1, min(g["commitIndex"][i], len(g["log"][i])) + 1):
                        en = g["log"][i][p - 1]
                        if en["client"] == c and en["cmd"]["idx"] == idx and (found is None or p < found[0]):
                            found = (p, en)
                if found is None:
                    bad.append(("acknowledged-put-not-committed", "client %d got the acknowledgement of its request %d (put %s:=%s) "
                                "but no server holds it below its commit index" % (c, idx, e[4], e[5])))
                else:
                    self.acked[(c, idx)] = found
        self.seen = len(w.hist)
        for (c, idx), (p, en) in self.acked.items():
            for i in w.servers():
                if g["commitIndex"][i] >= p and R.log_at(g["log"][i], p) != en:
                    bad.append(("acknowledged-put-lost", "put %s:=%s of client %d (request %d) was acknowledged with its entry committed at index %d; "
                                "server %d now has commitIndex %d and holds %r there"
                                % (en["cmd"]["key"], en["cmd"].get("value"), c, idx, p, i, g["commitIndex"][i], R.log_at(g["log"][i], p))))
                    return bad
        return bad


if __name__ == "__main__":
    # regenerate corpus/C09/<scenario>.json from the live scripts on the tree the harness was built from (the unchanged tree)
    import sys
    sys.path.insert(0, os.path.dirname(os.path.abspath(__file__)))
    import vlib
    h = R.Harness("c09")
    try:
        for c in build_all(h):
            path = os.path.join(vlib.VERIF, "corpus", "C09", c["name"] + ".json")
            json.dump(c, open(path, "w"), indent=0)
            print("wrote", path, len(c["events"]), "events", c.get("note", ""))
    finally:
        h.close()
