"""Python port of coq/C09/Model.v `linearizable` (cross-checked against the Coq checker on every history by the C09 check)
and the classification of non-linearizable histories.
History = list of ("inv", c, idx, (type, key, val)) / ("resp", c, idx, type, key, val, ok), oldest first."""


def ops_of(hist):
    ops = []
    for pos, e in enumerate(hist):
        if e[0] == "inv":
            resp = None
            for q in range(pos + 1, len(hist)):
                f = hist[q]
                if f[0] == "resp" and f[1] == e[1] and f[2] == e[2]:
                    resp = (q, (f[3], f[4], f[5], f[6]))
                    break
            ops.append({"c": e[1], "idx": e[2], "req": e[3], "inv": pos, "resp": resp})
    return ops


def spec_response(o, m):
    t, k, v = o["req"]
    if t == "put":
        return ("put", k, v, True)
    if k in m:
        return ("get", k, m[k], True)
    return ("get", k, 0, False)


def search(ops):
    """Wing-Gong search (memoised on (remaining set, store)); True iff linearizable"""
    n = len(ops)
    seen = set()

    def rec(rem, m):
        if all(ops[i]["resp"] is None for i in rem):
            return True
        key = (rem, tuple(sorted(m.items())))
        if key in seen:
            return False
        seen.add(key)
        for i in rem:
            o = ops[i]
            # minimal: no remaining op finished before o was invoked
            if any(ops[j]["resp"] is not None and ops[j]["resp"][0] < o["inv"] for j in rem):
                continue
            m2 = dict(m)
            if o["req"][0] == "put":
                m2[o["req"][1]] = o["req"][2]
            if o["resp"] is not None and o["resp"][1] != spec_response(o, m2):
                continue
            if rec(rem - frozenset([i]), m2):
                return True
        return False
    return rec(frozenset(range(n)), {})


def linearizable(hist):
    return search(ops_of(hist))


def applied_log(world):
    """the longest applied prefix among the servers (they agree by state machine safety, checked by C08's oracle)"""
    g = world.g
    best = []
    for i in world.servers():
        l = g["log"][i][:g["commitIndex"][i]]
        if len(l) > len(best):
            best = l
    return best


def classify(hist, world):
    """for a NON-linearizable history: is it explained by duplicate application of retried requests?
    Adds, for every extra copy of a Put in the applied log, a phantom Put invoked together with the original operation and never
    completing (it may take effect at any later time, which is exactly what a delayed retry does). Known finding iff the history
    with the phantoms is linearizable AND the applied log really contains a re-applied Put with an intervening different write to the
    same key. Returns (signature, detail)."""
    import c08_raft as R
    log = applied_log(world)
    seen = {}
    dups = []          # (first position, later position, entry)
    for pos, e in enumerate(log):
        ident = (e["client"], e["cmd"]["idx"])
        if ident in seen:
            dups.append((seen[ident], pos, e))
        else:
            seen[ident] = pos
    witness = None
    for first, later, e in dups:
        if e["cmd"]["type"] != "put":
            continue
        k, v = e["cmd"]["key"], e["cmd"]["value"]
        for mid in log[first + 1:later]:
            if mid["cmd"]["type"] == "put" and mid["cmd"]["key"] == k and mid["cmd"]["value"] != v \
                    and (mid["client"], mid["cmd"]["idx"]) != (e["client"], e["cmd"]["idx"]):
                witness = (first, later, k)
                break
        if witness:
            break
    h2 = list(hist)
    extra = []
    for first, later, e in dups:
        if e["cmd"]["type"] != "put":
            continue
        # phantom: invoked at the same place as the original invocation
        for pos, ev in enumerate(hist):
            if ev[0] == "inv" and ev[1] == e["client"] and ev[2] == e["cmd"]["idx"]:
                extra.append((pos, ("inv", -1 - len(extra), 1, ev[3])))
                break
    for pos, ev in sorted(extra, key=lambda x: -x[0]):
        h2.insert(pos + 1, ev)
    if witness and linearizable(h2):
        return ("duplicate-application-of-retried-request-after-intervening-acknowledged-write",
                "applied log re-applies entry %d at position %d (key %s) after a different write to the same key; "
                "with the re-application modelled as an extra pending Put the history is linearizable" % witness)
    return ("non-linearizable-history", "not explained by duplicate application of a retried request (duplicates in applied log: %d)" % len(dups))


def coq_hist(hist):
    out = []
    for e in hist:
        if e[0] == "inv":
            t, k, v = e[3]
            out.append("HInv %d %d (mkReq %s %d %d)" % (e[1], e[2], "CPut" if t == "put" else "CGet", k, v))
        else:
            out.append("HResp %d %d %s %d %d %s" % (e[1], e[2], "CPut" if e[3] == "put" else "CGet", e[4], e[5], "true" if e[6] else "false"))
    return "[" + "; ".join(out) + "]"
