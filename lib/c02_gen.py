"""C02 machinery: regenerate both models of every spec/Go pair from /repo's CURRENT files
(tools/go2coq, tools/tla2coq), write coq/Gen<tag>/<sys>_{go,tla,trees,probe,equiv}.v, compile them
with coqc (full .vo), and report per label whether its obligation is discharged.

Nothing here is cached across a change of inputs: every run re-translates the Go file (fast) and
re-translates the spec unless a translation of byte-identical inputs (spec text + translator text)
is stored under _build/c02cache; a Gen file is recompiled whenever its text or a dependency changed.
"""
import hashlib, json, os, re, shutil, subprocess, time
import vlib

# runs against a scratch worktree (VERIF_REPO) generate under coq/_run (ignored by git and by the full build) and clean up
GEN_NAME = "Gen" if not vlib._TAG else "_run.Gen" + vlib._TAG          # logical path below PGV
GEN_DIR = GEN_NAME.replace(".", "/")                                    # directory below coq/
GEN = os.path.join(vlib.COQ, GEN_DIR)
if vlib._TAG:
    import atexit
    atexit.register(lambda: shutil.rmtree(GEN, ignore_errors=True))
TOOLS = os.path.join(vlib.VERIF, "tools")
CACHE = os.path.join(vlib.BUILD, "c02cache")
SYMEX_FUEL = 6000

# (name, go file, tla file, pcal source for the *.gotests pairs, Bind module)
def gotest(name, consts=(), **kw):
    d = "pgo/test/files/general/%s.tla" % name
    r = {"name": name, "go": "%s.gotests/%s.go" % (d, name), "tla": d, "pcal": d + ".expectpcal", "constants": list(consts)}
    r.update(kw)
    return r


def _nested_consts(node_ids, num_ops):
    """walk constants of NestedCRDTImpl: a grow-only counter. The operator-valued CONSTANTs (COMBINE_FN, UPDATE_FN, VIEW_FN)
    are given as finite function tables over argument tuples (Walk.v cenv applies a table to <<args>>)."""
    top = len(node_ids) * num_ops + 2
    res = [max(node_ids) + n for n in node_ids]
    tab = lambda rows: "mkfun [%s]" % "; ".join("(VTup [%s], VNum %d)" % ("; ".join("VNum %d" % a for a in args), v) for args, v in rows)
    return [("BUFFER_SIZE", "VNum 2"), ("ZERO_VALUE", "VNum 0"), ("NUM_OPS", "VNum %d" % num_ops),
            ("NODE_IDS", "VSet [%s]" % "; ".join("VNum %d" % n for n in node_ids)), ("EMPTY_CELL", "VStr \"empty\""),
            ("READ_REQ", "VNum 1"), ("WRITE_REQ", "VNum 2"), ("ABORT_REQ", "VNum 3"), ("PRECOMMIT_REQ", "VNum 4"), ("COMMIT_REQ", "VNum 5"),
            ("READ_ACK", "VNum 6"), ("WRITE_ACK", "VNum 7"), ("ABORT_ACK", "VNum 8"), ("PRECOMMIT_ACK", "VNum 9"), ("COMMIT_ACK", "VNum 10"),
            ("COMBINE_FN", tab([((a, b), max(a, b)) for a in range(top) for b in range(top)])),
            ("UPDATE_FN", tab([((r, a, v), a + v) for r in res for a in range(top) for v in (1, 2)])),
            ("VIEW_FN", tab([((a,), a) for a in range(top)]))]


SYSTEMS = [
    {"name": "locksvc", "go": "systems/locksvc/locksvc.go", "tla": "systems/locksvc/locksvc.tla",
     "constants": [("NumClients", "VNum 3")]},
    {"name": "dqueue", "go": "systems/dqueue/dqueue.go", "tla": "systems/dqueue/dqueue.tla",
     "constants": [("BUFFER_SIZE", "VNum 2"), ("NUM_CONSUMERS", "VNum 2"), ("PRODUCER", "VNum 0")]},
    {"name": "loadbalancer", "go": "systems/loadbalancer/load_balancer.go", "tla": "systems/loadbalancer/load_balancer.tla",
     "constants": [("BUFFER_SIZE", "VNum 2"), ("NUM_CLIENTS", "VNum 2"), ("NUM_SERVERS", "VNum 2"), ("LoadBalancerId", "VNum 0"),
                   ("GET_PAGE", "VNum 1"), ("WEB_PAGE", "VNum 99")]},
    {"name": "proxy", "go": "systems/proxy/proxy.go", "tla": "systems/proxy/proxy.tla",
     "constants": [("NUM_SERVERS", "VNum 2"), ("NUM_CLIENTS", "VNum 1"), ("EXPLORE_FAIL", "VBool true"), ("CLIENT_RUN", "VBool true")]},
    {"name": "shcounter", "go": "systems/shcounter/shcounter.go", "tla": "systems/shcounter/shcounter.tla",
     "constants": [("NUM_NODES", "VNum 3")]},
    {"name": "gcounter", "go": "systems/gcounter/gcounter.go", "tla": "systems/gcounter/gcounter.tla",
     "constants": [("NUM_NODES", "VNum 2"), ("BENCH_NUM_ROUNDS", "VNum 1")],
     "env_processes": ["UpdateGCntr"],          # plain PlusCal process (CRDT merge): no generated Go
     "unused_archetypes": ["ANodeBench"]},      # archetype not instantiated by the spec: no TLA+ action to compare with
    {"name": "shopcart", "go": "systems/shopcart/shopcart.go", "tla": "systems/shopcart/shopcart.tla",
     "constants": [("NumNodes", "VNum 2"), ("ElemSet", "VSet [VNum 0; VNum 1; VNum 2; VNum 3]"), ("BenchNumRounds", "VNum 2")],
     "env_processes": ["UpdateCRDT"], "unused_archetypes": ["ANode"]},
    {"name": "nestedcrdtimpl", "go": "systems/nestedcrdtimpl/NestedCRDTImpl.go", "tla": "systems/nestedcrdtimpl/NestedCRDTImpl.tla",
     "constants": _nested_consts([1, 2], 3), "alt_constants": [_nested_consts([1], 4)],
     "env_processes": ["Node"], "unused_archetypes": ["ATestRig", "ATestBench"]},
    {"name": "pbkvs", "go": "systems/pbkvs/pbkvs.go", "tla": "systems/pbkvs/pbkvs.tla",
     "constants": [("NUM_REPLICAS", "VNum 2"), ("NUM_CLIENTS", "VNum 1"), ("EXPLORE_FAIL", "VBool false"), ("DEBUG", "VBool false")],
     "alt_constants": [[("NUM_REPLICAS", "VNum 2"), ("NUM_CLIENTS", "VNum 1"), ("EXPLORE_FAIL", "VBool true"), ("DEBUG", "VBool true")]]},
    {"name": "raftkvs", "go": "systems/raftkvs/raftkvs.go", "tla": "systems/raftkvs/raftkvs.tla",
     "constants": [("ExploreFail", "VBool true"), ("Debug", "VBool false"), ("NumServers", "VNum 2"), ("NumClients", "VNum 1"),
                   ("BufferSize", "VNum 2"), ("MaxTerm", "VNum 3"), ("MaxCommitIndex", "VNum 2"), ("MaxNodeFail", "VNum 1"),
                   ("LogConcat", "VStr \"c\""), ("LogPop", "VStr \"p\""), ("LeaderTimeoutReset", "VBool true"),
                   ("NumRequests", "VNum 2"), ("AllStrings", "VSet [VStr \"k1\"; VStr \"v1\"]")],
     "alt_constants": [[("ExploreFail", "VBool false"), ("Debug", "VBool false"), ("NumServers", "VNum 3"), ("NumClients", "VNum 1"),
                        ("BufferSize", "VNum 4"), ("MaxTerm", "VNum 4"), ("MaxCommitIndex", "VNum 3"), ("MaxNodeFail", "VNum 1"),
                        ("LogConcat", "VStr \"c\""), ("LogPop", "VStr \"p\""), ("LeaderTimeoutReset", "VBool true"),
                        ("NumRequests", "VNum 3"), ("AllStrings", "VSet [VStr \"k1\"; VStr \"v1\"]")]]},
    {"name": "replicatedkv", "go": "systems/replicatedkv/replicated_kv.go", "tla": "systems/replicatedkv/replicated_kv.tla",
     "constants": [("BUFFER_SIZE", "VNum 2"), ("NUM_REPLICAS", "VNum 2"), ("NUM_CLIENTS", "VNum 1"), ("DISCONNECT_MSG", "VNum 1"),
                   ("GET_MSG", "VNum 2"), ("PUT_MSG", "VNum 3"), ("NULL_MSG", "VNum 4"), ("GET_RESPONSE", "VNum 5"),
                   ("PUT_RESPONSE", "VNum 6"), ("NULL", "VNum 0"), ("GET_KEY", "VNum 10"), ("PUT_KEY", "VNum 11"),
                   ("PUT_VALUE", "VNum 12")]},
    gotest("hello"),
    gotest("IndexingLocals"),
    gotest("NonDetExploration"),
    gotest("bug2_124", [("NUM_NODES", "VNum 2"), ("BUFFER_SIZE", "VNum 2")]),
    gotest("PBFail4_bug125", [("BUFFER_SIZE", "VNum 2"), ("NUM_REPLICAS", "VNum 2"), ("NUM_CLIENTS", "VNum 1"), ("EXPLORE_FAIL", "VBool true")]),
    {"name": "bug_167", "go": "pgo/test/files/gogen/bug_167.tla.gotests/bug_167.go", "tla": "pgo/test/files/gogen/bug_167.tla",
     "constants": [("NUM_REPLICAS", "VNum 2"), ("NUM_PUT_CLIENTS", "VNum 1"), ("NUM_GET_CLIENTS", "VNum 1"), ("EXPLORE_FAIL", "VBool true"),
                   ("GET_CLIENT_RUN", "VBool true"), ("PUT_CLIENT_RUN", "VBool true")]},
]


# shipped pairs for which there is NO artefact TLC could model-check: SANY rejects the TLA+ translation that the stock pcal
# translator produces from the expected PlusCal. Re-verified in the thorough tier (a pair that becomes translatable is a break).
EXCLUDED = [
    dict(gotest("ExprTests"), reason="SANY: 'Multiply-defined symbol' (nested bound identifiers re-used in the fuzz-generated expressions); "
                                     "its only archetype ANothing is not instantiated, so there is no label to compare either"),
    dict(gotest("bug_119"), reason="SANY: 'Unknown operator: self' (procedure call from the single process Server = \"1\")"),
    dict(gotest("ProcedureSpaghetti"), reason="SANY: 'Could not parse module' (duplicate labels / stale parameter names in the expected PlusCal)"),
    {"name": "EmptyBlock", "go": "pgo/test/files/gogen/EmptyBlock.tla.gotests/EmptyBlock.go", "tla": "pgo/test/files/gogen/EmptyBlock.tla",
     "reason": "no archetype, no label: nothing to compare"},
]


def check_excluded(sysd):
    """True when the pair is (still) untranslatable for the stated reason"""
    if sysd["name"] == "EmptyBlock":
        txt = open(os.path.join(vlib.REPO, sysd["go"])).read()
        return "MPCalCriticalSection{" not in txt
    try:
        translate_tla(sysd)
    except RuntimeError:
        return True
    return False


def sha(*parts):
    h = hashlib.sha256()
    for p in parts:
        h.update(p if isinstance(p, bytes) else p.encode())
    return h.hexdigest()[:20]


def build_tools():
    """go2coq is a std-lib-only Go program"""
    os.makedirs(vlib.BIN, exist_ok=True)
    out = os.path.join(vlib.BIN, "go2coq")
    src = os.path.join(TOOLS, "go2coq", "main.go")
    if os.path.exists(out) and os.path.getmtime(out) > os.path.getmtime(src):
        return True, ""
    rc, o, e = vlib.sh(["go", "build", "-o", out, "."], cwd=os.path.join(TOOLS, "go2coq"), env=vlib.GOENV, timeout=600)
    return rc == 0, o + e


def write_if_changed(path, text):
    if os.path.exists(path) and open(path).read() == text:
        return False
    open(path, "w").write(text)
    return True


def translate_tla(sysd):
    """-> (json dict, coq text) or raises RuntimeError (broken tie)"""
    tla = os.path.join(vlib.REPO, sysd["tla"])
    pcal = os.path.join(vlib.REPO, sysd["pcal"]) if sysd.get("pcal") else None
    tool = open(os.path.join(TOOLS, "tla2coq", "tla2coq.py"), "rb").read()
    src = open(pcal if pcal else tla, "rb").read()
    extra = b""
    for f in sorted(os.listdir(os.path.dirname(tla))):   # sibling modules it may EXTEND
        if f.endswith(".tla") and f != os.path.basename(tla):
            extra += open(os.path.join(os.path.dirname(tla), f), "rb").read()
    key = sha(sysd["name"], tool, src, extra)
    d = os.path.join(CACHE, key)
    vf, jf = os.path.join(d, "tla.v"), os.path.join(d, "tla.json")
    if not (os.path.exists(vf) and os.path.exists(jf)):
        os.makedirs(d, exist_ok=True)
        wd = os.path.join("/var/tmp", "verif-c02-%d-%s" % (os.getpid(), sysd["name"]))
        cmd = ["python3", os.path.join(TOOLS, "tla2coq", "tla2coq.py"), "--sys", sysd["name"], "--tla", tla,
               "--out", vf + ".tmp", "--json", jf + ".tmp", "--workdir", wd]
        if pcal:
            cmd += ["--pcal-from", pcal]
        try:
            rc, o, e = vlib.sh(cmd, timeout=1500)
        finally:
            shutil.rmtree(wd, ignore_errors=True)
        if rc != 0:
            raise RuntimeError("tla2coq failed on %s: %s" % (sysd["tla"], (o + e)[-1500:]))
        os.replace(vf + ".tmp", vf)
        os.replace(jf + ".tmp", jf)
    return json.load(open(jf)), open(vf).read()


def translate_go(sysd, names):
    go = os.path.join(vlib.REPO, sysd["go"])
    d = os.path.join(vlib.BUILD, "c02tmp" + vlib._TAG)
    os.makedirs(d, exist_ok=True)
    nf = os.path.join(d, sysd["name"] + "_names.json")
    json.dump(names, open(nf, "w"))
    vf, jf = os.path.join(d, sysd["name"] + "_go.v"), os.path.join(d, sysd["name"] + "_go.json")
    rc, o, e = vlib.sh([os.path.join(vlib.BIN, "go2coq"), "-sys", sysd["name"], "-in", go, "-out", vf, "-json", jf,
                        "-names", nf], timeout=300)
    if rc != 0:
        raise RuntimeError("go2coq failed on %s: %s" % (sysd["go"], (o + e)[-1500:]))
    return json.load(open(jf)), open(vf).read()


def bind_instances(sysname):
    """(process, archetype, {go label -> tla label}) read off coq/C02/Bind_<sys>.v"""
    txt = open(os.path.join(vlib.COQ, "C02", "Bind_%s.v" % sysname)).read()
    txt = re.sub(r"\(\*.*?\*\)", "", txt, flags=re.S)
    out = []
    for m in re.finditer(r'\(\s*"([^"]+)"\s*,\s*mkInst\s+"([^"]+)"', txt):
        # label renames: the last list argument of this mkInst
        rest = txt[m.end():]
        depth, i, lists, start = 0, 0, [], None
        while i < len(rest):
            c = rest[i]
            if c == "[":
                if depth == 0:
                    start = i
                depth += 1
            elif c == "]":
                depth -= 1
                if depth == 0:
                    lists.append(rest[start:i + 1])
                    if len(lists) == 2:
                        break
            i += 1
        ren = dict(re.findall(r'\(\s*"([^"]+)"\s*,\s*"([^"]+)"\s*\)', lists[1])) if len(lists) == 2 else {}
        out.append((m.group(1), m.group(2), ren))
    return out


def cid(s):
    return re.sub(r"\W", "_", s)


def fix_imports(text):
    return text


def gen_system(sysd):
    """regenerate the models of one system; returns a dict describing labels and the files written"""
    name = sysd["name"]
    os.makedirs(GEN, exist_ok=True)
    info = {"name": name, "errors": [], "labels": [], "changed": False}
    try:
        tj, tv = translate_tla(sysd)
        gj, gv = translate_go(sysd, tj["names"])
    except RuntimeError as e:
        info["errors"].append(str(e))
        return info
    info["tla"], info["go"] = tj, gj
    ch = write_if_changed(os.path.join(GEN, name + "_tla.v"), tv)
    ch |= write_if_changed(os.path.join(GEN, name + "_go.v"), gv)
    insts = bind_instances(name)
    procs = {p["name"]: p["actions"] for p in tj["procs"]}
    selfes = {p["name"]: ("(Some (%s))" % p["self_expr"]) if p.get("self_expr") else "None" for p in tj["procs"]}
    act = {a["name"]: a for a in tj["actions"]}
    golabels = {l["name"]: l for l in gj["labels"]}
    imp = ("From PGV Require Import C02.Lang C02.Sem C02.Show C02.Bind_%s %s.%s_go %s.%s_tla.\n"
           "Open Scope string_scope.\nOpen Scope list_scope.\n\n" % (name, GEN_NAME, name, GEN_NAME, name))
    trees = [imp]
    trees.append("Definition %s_Dgo := canon_defs %s_go_defs.\n" % (name, name))
    trees.append("Definition %s_Dtla := canon_defs (restrict_defs (map fst %s_go_defs) %s_tla_defs).\n\n" % (name, name, name))
    labels = []
    matched_actions = set()
    for (proc, arch, ren) in insts:
        if proc not in procs:
            info["errors"].append("Bind_%s.v: process %s is not a process of the TLA+ translation" % (name, proc))
            continue
        trees.append('Definition %s_inst_%s : instance := match lookup "%s" %s_instances with Some i => i | None => mkInst "" [] [] end.\n'
                     % (name, cid(proc), proc, name))
        for l in gj["labels"]:
            if not l["name"].startswith(arch + "."):
                continue
            short = l["name"][len(arch) + 1:]
            if l["kind"] in ("done", "fallthrough"):
                continue
            tl = ren.get(short, short)
            lab = {"id": "%s.%s.%s" % (name, proc, tl), "go_label": l["name"], "tla_action": tl, "proc": proc,
                   "thm": "%s_%s_%s_equiv" % (name, cid(proc), cid(tl)), "hash": None}
            if tl not in act or tl not in procs[proc]:
                lab["error"] = "Go label %s has no action %s in process %s of the TLA+ translation" % (l["name"], tl, proc)
                labels.append(lab)
                continue
            matched_actions.add((proc, tl))
            a = act[tl]
            lab["hash"] = sha(l["hash"], a["hash"])
            g, t = "%s_gtree_%s_%s" % (name, cid(proc), cid(tl)), "%s_ttree_%s_%s" % (name, cid(proc), cid(tl))
            lab["g"], lab["t"], lab["godef"] = g, t, l["def"]
            trees.append("Definition %s : dtree := go_body_tree %s_tla_locals %s %s_scratch %s_inst_%s %d %s.\n"
                         % (g, name, selfes[proc], name, name, cid(proc), SYMEX_FUEL, l["def"]))
            trees.append('Definition %s : dtree := tla_action_tree %s_tla_locals %s %s_scratch %d "%s" %s %s.\n'
                         % (t, name, selfes[proc], name, SYMEX_FUEL, tl, '(Some "%s")' % a["self"] if a["self"] else "None", a["def"]))
            labels.append(lab)
    for (proc, arch, ren) in insts:
        for an in procs.get(proc, []):
            if (proc, an) not in matched_actions:
                labels.append({"id": "%s.%s.%s" % (name, proc, an), "proc": proc, "tla_action": an, "go_label": None,
                               "thm": "%s_%s_%s_equiv" % (name, cid(proc), cid(an)), "hash": None,
                               "error": "TLA+ action %s of process %s has no Go critical section in archetype %s" % (an, proc, arch)})
    covered = {p for (p, _, _) in insts} | set(sysd.get("env_processes", []))
    archs_bound = {a for (_, a, _) in insts} | set(sysd.get("unused_archetypes", []))
    for a in gj["archetypes"]:
        if a["name"] not in archs_bound:
            info["errors"].append("Go archetype %s is bound to no process in Bind_%s.v" % (a["name"], name))
    info["unused_archetype_labels"] = [l["name"] for l in gj["labels"] if l["kind"] == "body" and
                                       l["name"].split(".")[0] in sysd.get("unused_archetypes", [])]
    for p in procs:
        if p not in covered:
            info["errors"].append("process %s of the TLA+ translation is bound to no archetype in Bind_%s.v" % (p, name))
    info["labels"] = labels
    ch |= write_if_changed(os.path.join(GEN, name + "_trees.v"), "".join(trees))
    # probe: which obligations check, and why not
    ok_labels = [l for l in labels if "g" in l]
    probe = [imp.replace("%s.%s_tla." % (GEN_NAME, name), "%s.%s_tla %s.%s_trees." % (GEN_NAME, name, GEN_NAME, name))]
    probe.append("Definition %s_probe_defs := Eval vm_compute in (defs_check %s_Dgo %s_Dtla, defs_diff %s_Dgo %s_Dtla).\nPrint %s_probe_defs.\n"
                 % (name, name, name, name, name, name))
    for l in ok_labels:
        probe.append('Definition probe_%s := Eval vm_compute in (let g := %s in let t := %s in let b := equiv_check g t in\n'
                     '  ("%s", b, if b then "" else explain g t)).\nPrint probe_%s.\n'
                     % (l["thm"], l["g"], l["t"], l["id"], l["thm"]))
    ch |= write_if_changed(os.path.join(GEN, name + "_probe.v"), "".join(probe))
    # differential-execution tables (search oracle)
    wk = [imp.replace("C02.Show", "C02.Show C02.Walk").replace("%s.%s_tla." % (GEN_NAME, name), "%s.%s_tla %s.%s_trees." % (GEN_NAME, name, GEN_NAME, name))]
    ptabs = []
    for (proc, arch, ren) in insts:
        rows = ['("%s", (%s, %s))' % (l["tla_action"], l["g"], l["t"]) for l in ok_labels if l["proc"] == proc]
        ptabs.append('("%s", (match lookup "%s" %s_tla_procs with Some (s, _) => s | None => None end, [%s]))'
                     % (proc, proc, name, "; ".join(rows)))
    for p in sysd.get("env_processes", []):
        rows = []
        for an in procs.get(p, []):
            a = act[an]
            t = "%s_ttree_%s_%s" % (name, cid(p), cid(an))
            trees_env = 'Definition %s : dtree := tla_action_tree %s_tla_locals %s %s_scratch %d "%s" %s %s.\n' % (
                t, name, selfes[p], name, SYMEX_FUEL, an, '(Some "%s")' % a["self"] if a["self"] else "None", a["def"])
            wk.append(trees_env)
            rows.append('("%s", (%s, %s))' % (an, t, t))
        ptabs.append('("%s", (match lookup "%s" %s_tla_procs with Some (s, _) => s | None => None end, [%s]))'
                     % (p, p, name, "; ".join(rows)))
    csets = [sysd.get("constants", [])] + sysd.get("alt_constants", [])
    for ci, cs in enumerate(csets):
        consts = "; ".join('("%s", %s)' % (c, v) for (c, v) in cs)
        wk.append("Definition %s_W%d : wsys := Eval vm_compute in mkW %s_Dgo (canon_defs %s_tla_defs) [%s] %s_tla_init\n  [%s].\n"
                  % (name, ci, name, name, consts, name, ";\n   ".join(ptabs)))
    wk.append("Definition %s_W (i : nat) : wsys := nth i [%s] %s_W0.\n" % (
        name, "; ".join("%s_W%d" % (name, ci) for ci in range(len(csets))), name))
    wk.append('Definition %s_walk_report (n : nat) (focus : list string) (rnd : list N) : string :=\n'
              '  let \'(mm, tr) := one_walk n (%s_W (Nat.modulo (N.to_nat (hd 0%%N rnd)) %d)) focus (map N.to_nat rnd) in\n'
              '  (cat (map snd mm) ++ "#@#TRACE " ++ sep "," tr ++ " #@#ENDTRACE")%%string.\n' % (name, name, len(csets)))
    ch |= write_if_changed(os.path.join(GEN, name + "_walkdefs.v"), "".join(wk))
    info["changed"] = ch
    return info


class GenLock:
    """serialises the compilation of one system's generated files (the global coq lock is only taken, briefly,
    for the hand-written C02 files, so that long vm_compute runs do not block the other properties' checks)"""
    def __init__(self, name):
        self.p = os.path.join(vlib.BUILD, "c02_%s_%s.lock" % (GEN_DIR.replace("/", "_"), name))
    def __enter__(self):
        import fcntl
        os.makedirs(vlib.BUILD, exist_ok=True)
        self.f = open(self.p, "w")
        fcntl.flock(self.f, fcntl.LOCK_EX)
    def __exit__(self, *a):
        import fcntl
        fcntl.flock(self.f, fcntl.LOCK_UN)
        self.f.close()


def build_base(names, log):
    """the hand-written files outside the closure of Properties/C02.v: Show, Walk and the Bind files"""
    with vlib.CoqLock():
        for rel, deps in [("C02/Show.v", BASE_DEPS[:2]), ("C02/Walk.v", BASE_DEPS[:2] + ["C02/Show.v"])] + \
                [("C02/Bind_%s.v" % n, BASE_DEPS[:2] + (["C02/Bind_pbkvs.v"] if n == "bug_167" else [])) for n in names]:
            if stale(rel, deps):
                rc, o, e = coqc(rel)
                log.append("coqc %s rc=%d" % (rel, rc))
                if rc != 0:
                    return "hand-written %s does not compile: %s" % (rel, (o + e)[-800:])
    return None


def coq_scratch(name, text, timeout=600):
    """vlib.coq_eval, then remove the scratch source as well"""
    try:
        return vlib.coq_eval(name, text, timeout=timeout)
    finally:
        for ext in (".v", ".glob"):
            q = os.path.join(vlib.RUN, name + ext)
            if os.path.exists(q):
                os.remove(q)


def coqc(rel, timeout=1200):
    rc, o, e = vlib.sh(["coqc", "-Q", ".", "PGV", "-w", "-all", rel], cwd=vlib.COQ, timeout=timeout)
    return rc, o, e


def stale(rel, deps):
    vo = os.path.join(vlib.COQ, rel + "o")
    if not os.path.exists(vo):
        return True
    m = os.path.getmtime(vo)
    if os.path.getmtime(os.path.join(vlib.COQ, rel)) > m:
        return True
    for d in deps:
        p = os.path.join(vlib.COQ, d + "o")
        if not os.path.exists(p) or os.path.getmtime(p) > m:
            return True
    return False


BASE_DEPS = ["C02/Lang.v", "C02/Sem.v", "C02/Proofs.v", "C02/Show.v", "Properties/C02.v"]


def parse_probe(out):
    """-> (defs_ok, defs_diff, {label id: (ok, why)})"""
    defs_ok, defs_why, res = None, "", {}
    flat = re.sub(r"\s+", " ", out)
    m = re.search(r'_probe_defs = \((true|false), "((?:[^"]|"")*)"\)', flat)
    if m:
        defs_ok, defs_why = m.group(1) == "true", m.group(2)
    for m in re.finditer(r'probe_\w+ = \("([^"]+)", (true|false), "((?:[^"]|"")*)"\)', flat):
        res[m.group(1)] = (m.group(2) == "true", m.group(3).replace('""', '"'))
    return defs_ok, defs_why, res


def check_system(info, log):
    """compile the regenerated files, probe every label, write and compile <sys>_equiv.v with one theorem
    per label that checks. Fills info['labels'][i]['proved'|'why'] and info['defs_ok']."""
    name = info["name"]
    g = GEN_DIR + "/" + name
    bind = "C02/Bind_%s.v" % name
    with GenLock(name):
        steps = [(g + "_go.v", BASE_DEPS[:2]), (g + "_tla.v", BASE_DEPS[:2]),
                 (g + "_trees.v", BASE_DEPS[:4] + [bind, g + "_go.v", g + "_tla.v"])]
        for rel, deps in steps:
            if stale(rel, deps):
                rc, o, e = coqc(rel)
                log.append("coqc %s rc=%d" % (rel, rc))
                if rc != 0:
                    info["errors"].append("regenerated model does not compile: %s: %s" % (rel, (o + e)[-1200:]))
                    return
        # probe (output needed, so it is evaluated on every run unless the result is cached for identical inputs)
        pkey = sha(*[open(os.path.join(vlib.COQ, r)).read() for r in
                     [g + "_go.v", g + "_tla.v", g + "_trees.v", g + "_probe.v", bind] + BASE_DEPS[:4]]).replace("/", "_")
        pkey = sha(pkey, GEN_NAME)
        pc = os.path.join(CACHE, "probe_" + pkey + ".txt")
        if os.path.exists(pc):
            out = open(pc).read()
        else:
            rc, out, e = coqc(g + "_probe.v", timeout=2400)
            log.append("coqc %s_probe.v rc=%d" % (g, rc))
            if rc != 0:
                info["errors"].append("probe of %s does not compile: %s" % (name, (out + e)[-1200:]))
                return
            os.makedirs(CACHE, exist_ok=True)
            open(pc, "w").write(out)
    defs_ok, defs_why, res = parse_probe(out)
    info["defs_ok"], info["defs_why"] = bool(defs_ok), defs_why
    for l in info["labels"]:
        if "error" in l:
            l["proved"], l["why"] = False, l["error"]
        elif l["id"] in res:
            ok, why = res[l["id"]]
            l["proved"], l["why"] = ok and bool(defs_ok), why if not ok else ("" if defs_ok else "operator definitions differ: " + defs_why)
        else:
            l["proved"], l["why"] = False, "probe produced no result"
    # the theorem file: one Theorem per label whose checker answer is true; Qed re-checks it in the kernel
    thm = ["From PGV Require Import C02.Lang C02.Sem C02.Bind_%s %s.%s_go %s.%s_tla %s.%s_trees Properties.C02.\n"
           "Open Scope string_scope.\n\n" % (name, GEN_NAME, name, GEN_NAME, name, GEN_NAME, name)]
    proved = [l for l in info["labels"] if l.get("proved")]
    if defs_ok:
        thm.append("Theorem %s_defs_equal : %s_Dgo = %s_Dtla.\nProof. apply defs_check_sound. vm_compute. reflexivity. Qed.\n\n" % (name, name, name))
        for l in proved:
            thm.append("Theorem %s : forall fuel r ks,\n  run %s_Dgo fuel %s r ks = run %s_Dtla fuel %s r ks.\n"
                       "Proof. rewrite <- %s_defs_equal. apply equiv_sound. vm_compute. reflexivity. Qed.\nPrint Assumptions %s.\n\n"
                       % (l["thm"], name, l["g"], name, l["t"], name, l["thm"]))
    write_if_changed(os.path.join(GEN, name + "_equiv.v"), "".join(thm))
    with GenLock(name):
        rel = g + "_equiv.v"
        if stale(rel, BASE_DEPS + [bind, g + "_go.v", g + "_tla.v", g + "_trees.v"]):
            rc, o, e = coqc(rel, timeout=2400)
            log.append("coqc %s rc=%d" % (rel, rc))
            open(os.path.join(vlib.COQ, rel + ".log"), "w").write(o + e)
            if rc != 0:
                for l in proved:
                    l["proved"], l["why"] = False, "theorem file did not compile: " + (o + e)[-600:]
                info["errors"].append("%s does not compile: %s" % (rel, (o + e)[-1200:]))
                return
        out = open(os.path.join(vlib.COQ, rel + ".log")).read() if os.path.exists(os.path.join(vlib.COQ, rel + ".log")) else ""
        closed = out.count("Closed under the global context")
        if proved and closed != len(proved):
            info["errors"].append("%s: %d theorems but %d 'Closed under the global context'" % (rel, len(proved), closed))
    bad = vlib.hygiene([g + "_go.v", g + "_tla.v", g + "_trees.v", g + "_equiv.v", bind])
    if bad:
        info["errors"].append("hygiene: forbidden construct in %s" % repr(bad[:3]))


def ensure_walkdefs(info, log):
    name = info["name"]
    g = GEN_DIR + "/" + name
    bind = "C02/Bind_%s.v" % name
    with GenLock(name):
        rel = g + "_walkdefs.v"
        if stale(rel, BASE_DEPS[:4] + ["C02/Walk.v", bind, g + "_go.v", g + "_tla.v", g + "_trees.v"]):
            rc, o, e = coqc(rel)
            log.append("coqc %s rc=%d" % (rel, rc))
            if rc != 0:
                return "walk tables of %s do not compile: %s" % (name, (o + e)[-800:])
    return None


def run_walks(info, rnds, steps, log, focus=()):
    """run the two regenerated models against each other on the walks given by the lists of naturals.
    -> (list of mismatch dicts, {label: committed steps}, error or None)"""
    name = info["name"]
    g = GEN_DIR + "/" + name
    bind = "C02/Bind_%s.v" % name
    with GenLock(name):
        rel = g + "_walkdefs.v"
        if stale(rel, BASE_DEPS[:4] + ["C02/Walk.v", bind, g + "_go.v", g + "_tla.v", g + "_trees.v"]):
            rc, o, e = coqc(rel)
            log.append("coqc %s rc=%d" % (rel, rc))
            if rc != 0:
                return [], {}, "walk tables of %s do not compile: %s" % (name, (o + e)[-800:])
    body = ("From PGV Require Import C02.Lang C02.Sem C02.Show C02.Walk %s.%s_walkdefs.\nOpen Scope string_scope.\n" % (GEN_NAME, name))
    body += "Definition wall := Eval vm_compute in map (%s_walk_report %d [%s]) [%s]%%N.\nPrint wall.\n" % (
        name, steps, "; ".join('"%s"' % f for f in focus), ";\n ".join("[" + "; ".join(str(x) for x in r) + "]" for r in rnds))
    rc, out, err = coq_scratch("C02_walk_%s_%d" % (name, os.getpid()), body, timeout=1500)
    if rc != 0:
        return [], {}, "walk evaluation failed: " + (out + err)[-800:]
    flat = re.sub(r"\s+", " ", out).replace('""', '"')
    reports = flat.split("#@#ENDTRACE")[:-1]
    mism, cover = [], {}
    if len(reports) != len(rnds):
        return mism, cover, "walk evaluation produced %d reports for %d walks" % (len(reports), len(rnds))
    for r, rep in zip(rnds, reports):
        tr = rep.split("#@#TRACE", 1)[1].strip() if "#@#TRACE" in rep else ""
        sched = [x.strip() for x in tr.split(",") if x.strip()]
        for l in sched:
            if not l.startswith("~"):
                k = l.split("/")[0]
                cover[k] = cover.get(k, 0) + 1
        if "#@#WALKERROR" in rep:
            return mism, cover, rep.split("#@#WALKERROR", 1)[1].split("#@#END")[0].strip()
        for mm in rep.split("#@#MISMATCH")[1:]:
            mm = mm.split("#@#END")[0]
            d = {"rnd": r, "steps": steps, "system": name, "focus": list(focus)}
            for part in mm.split("#@#"):
                if "=" in part:
                    k, v = part.split("=", 1)
                    d[k.strip()] = v.strip()
            try:
                d["sched"] = sched[:int(d.get("attempt", "0")) + 1]
            except ValueError:
                d["sched"] = []
            mism.append(d)
    return mism, cover, None


def force_recheck():
    """thorough tier: drop every compiled generated file and cached probe so that everything is re-checked"""
    if os.path.isdir(GEN):
        for f in os.listdir(GEN):
            if f.endswith((".vo", ".vok", ".vos", ".glob", ".log")):
                os.remove(os.path.join(GEN, f))
    if os.path.isdir(CACHE):
        for f in os.listdir(CACHE):
            if f.startswith("probe_"):
                os.remove(os.path.join(CACHE, f))


# ---------------------------------------------------------------- validation against the real generated Go (locksvc)

def real_go_locksvc(info, cases, log, num_clients=3):
    """run the schedules on the REAL generated locksvc archetypes (harness c02) and let the regenerated Go model predict
    every observed attempt. cases: [{"id", "steps":[{"p","ks"}]}]. -> (n attempts compared, [mismatch dicts], error)"""
    name = "locksvc"
    rc, res, err = vlib.run_jsonl("c02", [dict(c, num_clients=num_clients) for c in cases], timeout=600)
    if rc != 0 or len(res) != len(cases):
        return 0, [], "harness c02 failed (rc=%d, %d/%d results): %s" % (rc, len(res), len(cases), err[-500:])
    g = GEN_DIR + "/" + name
    with GenLock(name):
        rel = g + "_walkdefs.v"
        if stale(rel, BASE_DEPS[:4] + ["C02/Walk.v", "C02/Bind_locksvc.v", g + "_go.v", g + "_tla.v", g + "_trees.v"]):
            rc, o, e = coqc(rel)
            log.append("coqc %s rc=%d" % (rel, rc))
            if rc != 0:
                return 0, [], "walk tables of locksvc do not compile: " + (o + e)[-500:]
    body = ["From PGV Require Import C02.Lang C02.Sem C02.Show C02.Walk %s.%s_walkdefs.\nOpen Scope string_scope.\nOpen Scope Z_scope.\n" % (GEN_NAME, name)]
    rows, meta, nstate = [], [], 0
    for r in res:
        if r.get("err"):
            return 0, [], "harness c02: " + r["err"]
        body.append("Definition st%d : gstate := %s.\n" % (nstate, r["init"]))
        cur = nstate
        nstate += 1
        case = [c for c in cases if c["id"] == r["id"]][0]
        for st, so in zip(case["steps"], r["steps"]):
            body.append("Definition st%d : gstate := %s.\n" % (nstate, so["post"]))
            kind = so["outcome"].replace('"', "'")[:60]
            rows.append('real_step_ok (locksvc_W 0) "%s" "%s" (VNum %d) st%d [%s]%%nat "%s" st%d' % (
                "Server" if so["p"] == 0 else "client", so["label"], so["self"], cur,
                "; ".join(str(int(k) % 64) for k in st["ks"]), kind, nstate))
            meta.append({"case": r["id"], "p": so["p"], "label": so["label"], "outcome": so["outcome"], "ks": st["ks"]})
            cur = nstate
            nstate += 1
    out = ""
    for s0_ in range(0, len(rows), 600):
        part = body + ["Definition R%d := Eval vm_compute in cat [%s].\nPrint R%d.\n" % (s0_, ";\n ".join(rows[s0_:s0_ + 600]), s0_)]
        rc, o, err = coq_scratch("C02_real_%d" % os.getpid(), "".join(part), timeout=900)
        if rc != 0:
            return 0, [], "evaluation of the real-Go comparison failed: " + (o + err)[-800:]
        out += o
    flat = re.sub(r"\s+", " ", out).replace('""', '"')
    mism = []
    for mm in flat.split("#@#REAL")[1:]:
        mm = mm.split("#@#END")[0]
        d = {}
        for part in mm.split("#@#"):
            if "=" in part:
                k, v = part.split("=", 1)
                d[k.strip()] = v.strip()
        mism.append(d)
    return len(rows), mism, None


def confirm_on_real_go_locksvc(info, m, log, num_clients=3):
    """replay the attempts of the walk that led to the distinguishing state on the REAL generated Go and compare the
    real step with both models. -> dict"""
    steps = []
    for ent in m.get("sched", []):
        try:
            _, selfs, ks = ent.lstrip("~").split("/")
            steps.append({"p": int(selfs), "ks": [int(x) for x in ks.split(".") if x != ""]})
        except ValueError:
            return {"status": "not run: schedule entry not understood: " + ent}
    if not steps:
        return {"status": "not run: empty schedule"}
    rc, res, err = vlib.run_jsonl("c02", [{"id": 0, "num_clients": num_clients, "steps": steps}], timeout=300)
    if rc != 0 or len(res) != 1 or res[0].get("err"):
        return {"status": "not run: harness c02 failed: " + (err[-300:] if not res else str(res[0].get("err")))}
    r = res[0]
    body = ["From PGV Require Import C02.Lang C02.Sem C02.Show C02.Walk %s.locksvc_walkdefs.\nOpen Scope string_scope.\nOpen Scope Z_scope.\n" % GEN_NAME]
    pre = r["init"] if len(r["steps"]) == 1 else r["steps"][-2]["post"]
    so = r["steps"][-1]
    body.append("Definition pre : gstate := %s.\nDefinition post : gstate := %s.\n" % (pre, so["post"]))
    args = '(locksvc_W 0) "%s" "%s" (VNum %d) pre [%s]%%nat "%s" post' % (
        "Server" if so["p"] == 0 else "client", so["label"], so["self"], "; ".join(str(k) for k in steps[-1]["ks"]),
        so["outcome"].replace('"', "'")[:60])
    body.append('Definition R := Eval vm_compute in (real_step_ok_with false %s, real_step_ok_with true %s).\nPrint R.\n' % (args, args))
    rc, out, err = coq_scratch("C02_confirm_%d" % os.getpid(), "".join(body), timeout=600)
    if rc != 0:
        return {"status": "not run: comparison did not evaluate: " + (out + err)[-300:]}
    flat = re.sub(r"\s+", " ", out)
    mres = re.search(r'R = \("((?:[^"]|"")*)", "((?:[^"]|"")*)"\)', flat)
    if not mres:
        return {"status": "not run: comparison output not understood"}
    go_ok, tla_ok = mres.group(1) == "", mres.group(2) == ""
    return {"status": "ran", "label_reached": so["label"], "real_outcome": so["outcome"], "real_post_state": so["post"],
            "real_go_agrees_with_go_model": go_ok, "real_go_agrees_with_tla_model": tla_ok,
            "confirmed": go_ok and not tla_ok and so["label"] == m.get("label")}


# ---------------------------------------------------------------- seed corpus (coverage-guided reachable states, lib/c02_seedgen.py)

def seeds_hash(info):
    sysd = [x for x in SYSTEMS if x["name"] == info["name"]][0]
    return sha(repr([a["hash"] for a in info["tla"]["actions"]]), repr(sysd.get("constants")), repr(sysd.get("alt_constants")))


def scenario_seeds(name):
    """hand-scripted scenario schedules (corpus/C02/scenario_<sys>_*.json): seeds without a stored state; the state is
    recomputed from Init by the schedule (Walk.replay_sched) whenever it is used"""
    import glob
    out = []
    for f in sorted(glob.glob(os.path.join(vlib.VERIF, "corpus", "C02", "scenario_%s_*.json" % name))):
        out += json.load(open(f))["seeds"]
    return out


def seed_state_def(name, i, sd):
    """Coq definition of the state of seed i"""
    if sd.get("state"):
        return "Definition sd%d : gstate := %s.\n" % (i, sd["state"])
    ents = []
    for ent in sd["sched"]:
        key, selfs, ks = ent.lstrip("~").split("/")
        ents.append('("%s", VNum (%d), [%s]%%nat)' % (key, int(selfs), "; ".join(x for x in ks.split(".") if x != "")))
    return ("Definition sd%d : gstate := replay_sched (%s_W %d) (match init_state (%s_W %d) (w_init (%s_W %d)) [] [%s]%%nat with Ok s => s | Err _ => [] end) [%s].\n"
            % (i, name, sd["cset"], name, sd["cset"], name, sd["cset"], "; ".join(str(x) for x in sd.get("init_rnd") or []), "; ".join(ents)))


def load_seeds(info):
    """seeds of this system computed with the CURRENT TLA+ translation (others are ignored) -> (list, note)"""
    import gzip
    p = os.path.join(vlib.VERIF, "corpus", "C02", "seeds_%s.json.gz" % info["name"])
    if not os.path.exists(p):
        return scenario_seeds(info["name"]), None
    db = json.load(gzip.open(p, "rt"))
    if db.get("tla_hash") != seeds_hash(info):
        return scenario_seeds(info["name"]), "seed corpus of %s was computed with a different TLA+ translation or other constants: ignored" % info["name"]
    return scenario_seeds(info["name"]) + db["seeds"], None


def scan_seeds(info, labels, log, limit=400, pred_limit=120):
    """compare both trees of the given labels ("process.label") on the stored reachable states standing at them, over all
    small choice vectors; then on the one-step successors (TLA+ model, every small choice vector) of the seeds standing at
    another label of the same process. -> (n states scanned, [mismatch dicts], note)"""
    name = info["name"]
    seeds, note = load_seeds(info)
    sel = [(i, s, None) for i, s in enumerate(seeds) if s["label"] in labels][:limit]
    procs = {l.split(".", 1)[0] for l in labels}
    # one-step lookahead from the deepest stored states (any seed: some instance of the process usually stands at another label)
    deep = sorted(range(len(seeds)), key=lambda i: (0 if seeds[i].get("state") is None else 1, -len(seeds[i]["sched"])))[:pred_limit]
    for lab in labels:
        sel += [(i, seeds[i], lab) for i in deep]
    if not sel:
        return 0, [], note
    e = ensure_walkdefs(info, log)
    if e:
        return 0, [], e
    with vlib.CoqLock():
        if stale("C02/Scan.v", BASE_DEPS[:2] + ["C02/Show.v", "C02/Walk.v"]):
            rc, o, er = coqc("C02/Scan.v")
            if rc != 0:
                return 0, [], "C02/Scan.v does not compile: " + (o + er)[-400:]
    head = "From PGV Require Import C02.Lang C02.Sem C02.Show C02.Walk C02.Scan %s.%s_walkdefs.\nOpen Scope string_scope.\nOpen Scope Z_scope.\n" % (GEN_NAME, name)
    def chunk(args):
        k, part = args
        body, rows, done = [head], [], set()
        for i, sd, target in part:
            proc, lbl = sd["label"].split(".", 1)
            if i not in done:
                body.append(seed_state_def(name, i, sd))
                done.add(i)
            if target is None:
                rows.append('scan_seed (%s_W %d) "%s" "%s" sd%d "%d"' % (name, sd["cset"], proc, lbl, i, i))
            else:
                rows.append('scan_pred (%s_W %d) "%s" "%s" sd%d "%d"' % (name, sd["cset"], target.split(".", 1)[0], target.split(".", 1)[1], i, i))
        body.append("Definition R := Eval vm_compute in filter (fun s => negb (String.eqb s \"\")) [%s].\nPrint R.\n" % ";\n ".join(rows))
        rc, out, err = coq_scratch("C02_seeds_%s_%d_%d" % (name, os.getpid(), k), "".join(body), timeout=900)
        if rc != 0:
            return None, "seed scan failed: " + (out + err)[-600:]
        found = []
        flat = re.sub(r"\s+", " ", out).replace('""', '"')
        for mm in flat.split("#@#MISMATCH")[1:]:
            tail = mm.split("#@#SEEDID", 1)[1].split("#@#ENDSEED")[0]
            via = tail.split("#@#VIA", 1)[1].strip() if "#@#VIA" in tail else None
            sid = int(tail.split("#@#VIA")[0].strip())
            mm = mm.split("#@#END")[0]
            d = {"system": name, "seed": sid, "sched": seeds[sid]["sched"] + ([via] if via else []), "init_rnd": seeds[sid]["init_rnd"],
                 "cset": seeds[sid]["cset"], "rnd": [], "steps": 0, "focus": []}
            for part_ in mm.split("#@#"):
                if "=" in part_:
                    k_, v = part_.split("=", 1)
                    d[k_.strip()] = v.strip()
            found.append(d)
        return found, None

    from concurrent.futures import ThreadPoolExecutor
    parts = [(k, sel[s0_:s0_ + 50]) for k, s0_ in enumerate(range(0, len(sel), 50))]
    mism = []
    with ThreadPoolExecutor(max_workers=4) as ex:
        for found, err in ex.map(chunk, parts):
            if err:
                note = err
            mism += found or []
    return len(sel), mism, note


# ---------------------------------------------------------------- validation against the real generated Go through harness/steplib
# (harness/cmd/c02s: dqueue, pbkvs, raftkvs; harness/cmd/c16 in the thorough tier for the other small systems)

def _const_cfg(sysd, cset):
    cs = ([sysd.get("constants", [])] + sysd.get("alt_constants", []))[cset]
    cfg = {}
    for k, v in cs:
        m = re.match(r"VNum \(?(-?\d+)\)?$", v)
        if m:
            cfg[k] = int(m.group(1))
        elif v == "VBool true":
            cfg[k] = 1
        elif v == "VBool false":
            cfg[k] = 0
    return cfg


def _raft_proc(name, cfg):
    n = cfg["NumServers"]
    if name[0] == "s":
        i, k = name[1:].split(".")
        return ("s%d" % int(k), int(k) * n + int(i))
    if name[0] == "c":
        return ("client", 6 * n + int(name[1:]))
    return ("crasher", 5 * n + int(name[1:]))


def _bag_of_tuple(x):
    """raftstep keeps network[d].queue as a sequence (send order); the spec has a bag: element -> count"""
    items = []
    for e in x["t"]:
        for it in items:
            if json.dumps(it[0], sort_keys=True) == json.dumps(e, sort_keys=True):
                it[1] += 1
                break
        else:
            items.append([e, 1])
    return {"f": items}


def _raft_adapt(state):
    st = {k: v for k, v in state.items() if k != "timeout"}
    if "network" in st:
        nw = []
        for node, rec in st["network"]["f"]:
            nw.append([node, {"f": [[k, (_bag_of_tuple(v) if k == "queue" else v)] for k, v in rec["f"]]}])
        st["network"] = {"f": nw}
    return st


def _raft_inv(tproc, self_, cfg):
    n = cfg["NumServers"]
    if tproc == "client":
        return "c%d" % (self_ - 6 * n)
    if tproc == "crasher":
        return "x%d" % (self_ - 5 * n)
    k = int(tproc[1:])
    return "s%d.%d" % (self_ - k * n, k)


def _rkv_proc(nm, cfg):
    nr, nc = cfg["NUM_REPLICAS"], cfg["NUM_CLIENTS"]
    kind, i = re.match(r"([a-z]+)(\d+)$", nm).groups()
    i = int(i)
    return {"rep": ("Replica", i), "get": ("GetClient", nr + i), "put": ("PutClient", nr + nc + i),
            "dis": ("DisconnectClient", nr + 2 * nc + i), "clk": ("ClockUpdateClient", nr + 3 * nc + i)}[kind]


REAL_SYSTEMS = {
    "dqueue": {"bin": "c02s", "proc": lambda nm, cfg: ("Producer", 0) if nm == "producer" else ("Consumer", int(nm[1:])),
               "inv": lambda tp, sf, cfg: "producer" if tp == "Producer" else "c%d" % sf},
    "pbkvs": {"bin": "c02s", "proc": lambda nm, cfg: ("Replica", int(nm[1:])) if int(nm[1:]) <= cfg["NUM_REPLICAS"] else ("Client", int(nm[1:])),
              "inv": lambda tp, sf, cfg: "p%d" % sf},
    "raftkvs": {"bin": "c02s", "proc": _raft_proc, "adapt": _raft_adapt, "floor": {"m.req": 6}, "inv": _raft_inv},
    # own set-ups in harness/cmd/c02s with the mappings exactly as the specs instantiate them; resources the spec binds to
    # an archetype-local (proxy: the client's `input` via Requests; replicatedkv: the replica's kv) are spec variables of the
    # harness (input<c>, kv<i>) and are presented to the model as locals of the process at hand ("loc")
    "proxy": {"bin": "c02s", "proc": lambda nm, cfg: ("Proxy", cfg["NUM_SERVERS"] + cfg["NUM_CLIENTS"] + 1) if nm == "proxy" else
              (("Server", int(nm[1:])) if nm[0] == "s" else ("Client", int(nm[1:]))),
              "adapt": lambda st: {k: v for k, v in st.items() if not k.startswith("input")},
              "loc": lambda tp, sf, st: {"AClient.input": st["input%d" % sf]} if tp == "Client" else {}},
    "replicatedkv": {"bin": "c02s", "proc": _rkv_proc,
                     "adapt": lambda st: {k: v for k, v in st.items() if not re.match(r"kv\d+$", k)},
                     "loc": lambda tp, sf, st: {"AReplica.kv": st["kv%d" % sf]} if tp == "Replica" else {}},
    # served by harness/cmd/c16 (same output shape); thorough tier
    "shcounter": {"bin": "c16", "proc": lambda nm, cfg: ("Node", int(nm[1:]))},
    "loadbalancer": {"bin": "c16", "proc": lambda nm, cfg: ("LoadBalancer", 0) if nm == "lb" else
                     (("Servers", int(nm[1:])) if nm[0] == "s" else ("Client", int(nm[1:])))},
}


def enc_to_coq(x):
    """steplib.Enc JSON -> Coq term of type value (canonicalised by mkfun / set_of_list)"""
    if x is None:
        return "VDefault"
    if isinstance(x, bool):
        return "VBool true" if x else "VBool false"
    if isinstance(x, (int, float)):
        return "VNum (%d)" % int(x)
    if isinstance(x, str):
        return "VStr " + vlib.coq_str(x).replace("%string", "")
    if "t" in x:
        return "VTup [" + "; ".join(enc_to_coq(e) for e in x["t"]) + "]"
    if "s" in x:
        return "VSet (set_of_list [" + "; ".join(enc_to_coq(e) for e in x["s"]) + "])"
    if "f" in x:
        return "mkfun [" + "; ".join("(%s, %s)" % (enc_to_coq(k), enc_to_coq(v)) for k, v in x["f"]) + "]"
    raise ValueError("cannot convert %r" % (x,))


def _vstore(d, who=None):
    """who = (TLA+ process, self): a local whose whole value the recorder has not seen yet (steplib {"partial": [[indices, value]..]}:
    indexed writes on top of the value its declaration gave it) is rebuilt from the model's initial value of that variable"""
    def one(k, v):
        if isinstance(v, dict) and "partial" in v:
            return 'partial_of "%s" "%s" (VNum %d) [%s]' % (who[0], k, who[1], "; ".join(
                "([%s], %s)" % ("; ".join(enc_to_coq(i) for i in idx), enc_to_coq(val)) for idx, val in v["partial"]))
        return enc_to_coq(v)
    return "[" + "; ".join('("%s", %s)' % (k, one(k, v)) for k, v in sorted(d.items())) + "]"


def real_go_steplib(info, sysd, cset, n_sched, n_steps, rng, log, cases=None, consts=None, cfg=None, direct=None):
    """random schedules on the REAL generated archetypes; the regenerated Go model must reproduce every observed attempt
    for some choice vector within the observed ceilings. -> (attempts compared, committed, [mismatch dicts], error)
    cases/consts/cfg: explicit schedules (corpus files of other properties), the Coq CONSTANT values and harness cfg they need.
    direct: a dict that receives {"agree", "agree_up_to_eager_error", "disagree": [..]}: on every observed pre-state,
    for every candidate choice vector, run o symex_go of the Go body is also compared with the direct interpreter (Direct.v)."""
    import itertools
    name = info["name"]
    rs = REAL_SYSTEMS[name]
    cfg = cfg if cfg is not None else _const_cfg(sysd, cset)
    if cases is not None:
        return _real_core(info, sysd, cset, cases, cfg, log, consts, direct)
    # one probing case to learn the proc names
    rc, res, err = vlib.run_jsonl(rs["bin"], [{"id": 0, "system": name, "cfg": cfg, "sched": []}], timeout=120)
    if rc != 0 or not res or res[0].get("err"):
        return 0, 0, [], "harness %s failed on %s: %s" % (rs["bin"], name, (res[0].get("err") if res else err[-300:]))
    procs = res[0]["procs"]
    cases = [{"id": i, "system": name, "cfg": cfg,
              "sched": [[rng.choice(procs), [rng.randrange(0, 6) for _ in range(4)]] for _ in range(n_steps)]} for i in range(n_sched)]
    # half of the schedules start with the schedule of a stored seed state (deep executions: elections, replication, crashes);
    # the real code may resolve a choice index to another element than the model did, which only makes it another real run
    seeds = [sd for sd in load_seeds(info)[0] if sd["cset"] == cset and len(sd["sched"]) >= 10] if "inv" in rs else []
    for c in cases[: len(cases) // 2] if seeds else []:
        sd = rng.choice(seeds)
        pre = []
        for ent in sd["sched"][-n_steps:] if False else sd["sched"][:n_steps]:
            try:
                key, selfs, ks = ent.split("/")
                pre.append([rs["inv"](key.split(".", 1)[0], int(selfs), cfg), [int(x) for x in ks.split(".") if x != ""]])
            except ValueError:
                break
        c["sched"] = (pre + c["sched"])[:max(n_steps, len(pre) + 10)]
    return _real_core(info, sysd, cset, cases, cfg, log, consts, direct)


def _real_core(info, sysd, cset, cases, cfg, log, consts=None, direct=None):
    import itertools
    name = info["name"]
    rs = REAL_SYSTEMS[name]
    rc, res, err = vlib.run_jsonl(rs["bin"], cases, timeout=900)
    if rc != 0 or len(res) != len(cases):
        return 0, 0, [], "harness %s failed (rc=%d, %d/%d results): %s" % (rs["bin"], rc, len(res), len(cases), err[-300:])
    e = ensure_walkdefs(info, log)
    if e:
        return 0, 0, [], e
    if direct is not None:
        with vlib.CoqLock():
            for rel, deps in [("C02/Direct.v", BASE_DEPS[:2]), ("C02/DirectWalk.v", BASE_DEPS[:2] + ["C02/Show.v", "C02/Walk.v", "C02/Direct.v"])]:
                if stale(rel, deps):
                    rc_, o_, er_ = coqc(rel)
                    if rc_ != 0:
                        return 0, 0, [], "%s does not compile: %s" % (rel, (o_ + er_)[-500:])
    adapt = rs.get("adapt", lambda s: s)
    head = ("From PGV Require Import C02.Lang C02.Sem C02.Show C02.Walk C02.Bind_%s %s.%s_tla %s.%s_walkdefs.\nOpen Scope string_scope.\nOpen Scope Z_scope.\n"
            "Definition W0 := %s_W %d.\n"
            "Definition W : wsys := WDEF.\n"
            "Definition base : gstate := match init_state W (w_init W) [] [] with Ok s => s | Err _ => [] end.\n"
            "Definition inst (p : string) : instance := match lookup p %s_instances with Some i => i | None => mkInst \"\" [] [] end.\n"
            "Fixpoint upd_path (v : value) (path : list value) (nv : value) : value :=\n"
            "  match path with [] => nv | k :: rest => match vapply v k with\n"
            "    | Ok sub => match vupdate v k (upd_path sub rest nv) with Ok v' => v' | Err _ => v end | Err _ => v end end.\n"
            "Definition partial_of (p res : string) (self : value) (ups : list (list value * value)) : value :=\n"
            "  let '(x, _) := tla_local_target %s_tla_locals (inst p) res in\n"
            "  match lookup x base with Some f => match vapply f self with\n"
            "    | Ok v0 => fold_left (fun v u => upd_path v (fst u) (snd u)) ups v0 | Err _ => VDefault end | None => VDefault end.\n"
            % (name, GEN_NAME, name, GEN_NAME, name, name, cset, name, name))
    head = head.replace("WDEF", "W0" if consts is None else
                        "mkW (w_dgo W0) (w_dtla W0) [%s] (w_init W0) (w_procs W0)" % "; ".join('("%s", %s)' % c for c in consts))
    if direct is not None:
        procs_ = {}
        for l in info["labels"]:
            if "godef" in l:
                procs_.setdefault(l["proc"], []).append('("%s", %s)' % (l["tla_action"], l["godef"]))
        btab = "; ".join('("%s", (%s_inst_%s, [%s]))' % (p_, name, cid(p_), "; ".join(rws)) for p_, rws in procs_.items())
        head = head.replace("C02.Walk C02.Bind_", "C02.Walk C02.Direct C02.DirectWalk C02.Bind_").replace(
            "%s.%s_tla %s.%s_walkdefs" % (GEN_NAME, name, GEN_NAME, name),
            "%s.%s_go %s.%s_tla %s.%s_trees %s.%s_walkdefs" % (GEN_NAME, name, GEN_NAME, name, GEN_NAME, name, GEN_NAME, name))
        head += ("Definition B : btable := [%s].\n"
                 "Definition direct_obs (proc lbl : string) (self : value) (gpre lpre : list (string * value)) (cands : list (list nat)) : string :=\n"
                 "  let pre := obs_state %s_tla_locals (inst proc) self base gpre lpre in\n"
                 "  let r := env_of W pre self in\n"
                 "  match lookup proc (w_procs W), lookup proc B with\n"
                 "  | Some (_, table), Some (ins, bodies) =>\n"
                 "      match lookup lbl table, lookup lbl bodies with\n"
                 "      | Some (gt, _), Some body =>\n"
                 "          cat (map (fun ks => match direct_agrees (w_dgo W) EVAL_FUEL %s_tla_locals ins body gt r ks with\n"
                 "                              | O => \"#@#DA0 \" | S O => \"#@#DA1 \"\n"
                 "                              | _ => \"#@#DIRECT process=\" ++ proc ++ \" #@#label=\" ++ lbl ++ \" #@#self=\" ++ show_value self ++\n"
                 "                                     \" #@#choices=\" ++ show_nats ks ++ \" #@#state=\" ++ show_vstore pre ++\n"
                 "                                     \" #@#symbolic=\" ++ show_outcome (run (w_dgo W) EVAL_FUEL gt r ks) ++\n"
                 "                                     \" #@#direct=\" ++ show_outcome (exec_body (w_dgo W) EVAL_FUEL %s_tla_locals ins r body ks) ++ \" #@#END\"\n"
                 "                              end) cands)\n"
                 "      | _, _ => \"#@#DANOLABEL \" end\n"
                 "  | _, _ => \"#@#DANOLABEL \" end.\n" % (btab, name, name, name))
    rows, defs, committed = [], [], 0
    drows = []
    gi = 0
    for r in res:
        if r.get("err"):
            return 0, 0, [], "harness: " + r["err"]
        locs = {p: {".pc": r["pcs0"][p]} for p in r["procs"]}
        defs.append("Definition g%d := %s.\n" % (gi, _vstore(adapt(r["init"]))))
        cur = gi
        cur_raw = r["init"]
        gi += 1
        for so in r["steps"]:
            p = so["proc"]
            tproc, self_ = rs["proc"](p, cfg)
            lpre = dict(locs[p])
            if so["outcome"] in ("finished", "done") or not so.get("label"):
                continue
            if "loc" in rs:
                lpre.update(rs["loc"](tproc, self_, cur_raw))
            lpost = dict(lpre)
            if so["outcome"] == "commit":
                lpost.update(so.get("locals") or {})
                lpost[".pc"] = so["pc"] or lpre[".pc"]
                committed += 1
            if "loc" in rs:
                lpost.update(rs["loc"](tproc, self_, so["state"]))
            defs.append("Definition g%d := %s.\n" % (gi, _vstore(adapt(so["state"]))))
            ceil = [max(int(c["ceiling"]), rs.get("floor", {}).get(c["id"], 1)) for c in (so.get("choices") or [])][:4]
            while ceil and _prod(ceil) > 300:
                ceil[ceil.index(max(ceil))] -= 1
            cands = [list(t) for t in itertools.product(*[range(c) for c in ceil])] or [[]]
            lbl = so["label"].split(".", 1)[1] if "." in so["label"] else so["label"]
            kind = so["outcome"] if not so["outcome"].startswith("error") else "error:" + so["outcome"].split(":", 1)[1]
            rows.append('real_obs_ok W %s_tla_locals (inst "%s") "%s" "%s" (VNum %d) base g%d %s [%s]%%nat "%s" g%d %s' % (
                name, tproc, tproc, lbl, self_, cur, _vstore(lpre, (tproc, self_)),
                "; ".join("[" + "; ".join(str(k) for k in c) + "]" for c in cands), kind, gi, _vstore(lpost, (tproc, self_))))
            if direct is not None:
                drows.append('direct_obs "%s" "%s" (VNum %d) g%d %s [%s]%%nat' % (
                    tproc, lbl, self_, cur, _vstore(lpre, (tproc, self_)),
                    "; ".join("[" + "; ".join(str(k) for k in c) + "]" for c in cands[:24])))
            if so["outcome"] == "commit":
                locs[p] = lpost
            cur = gi
            cur_raw = so["state"]
            gi += 1
    out = ""
    for s0_ in range(0, len(rows), 150):
        body = head + "".join(defs) + "Definition R := Eval vm_compute in cat [%s].\nPrint R.\n" % ";\n ".join(rows[s0_:s0_ + 150])
        rc, o, err = coq_scratch("C02_reals_%s_%d_%d" % (name, cset, os.getpid()), body, timeout=1500)
        if rc != 0:
            return 0, 0, [], "evaluation of the real-Go comparison of %s failed: %s" % (name, (o + err)[-800:])
        out += o
    if direct is not None:
        dout = ""
        for s0_ in range(0, len(drows), 150):
            body = head + "".join(defs) + "Definition R := Eval vm_compute in cat [%s].\nPrint R.\n" % ";\n ".join(drows[s0_:s0_ + 150])
            rc, o, err = coq_scratch("C02_reald_%s_%d_%d" % (name, cset, os.getpid()), body, timeout=1500)
            if rc != 0:
                return 0, 0, [], "evaluation of the direct-interpreter comparison of %s failed: %s" % (name, (o + err)[-800:])
            dout += o
        dflat = re.sub(r"\s+", " ", dout).replace('""', '"')
        direct["agree"] = direct.get("agree", 0) + dflat.count("#@#DA0")
        direct["agree_up_to_eager_error"] = direct.get("agree_up_to_eager_error", 0) + dflat.count("#@#DA1")
        direct["no_label"] = direct.get("no_label", 0) + dflat.count("#@#DANOLABEL")
        for mm in dflat.split("#@#DIRECT")[1:]:
            mm = mm.split("#@#END")[0]
            d = {"system": name}
            for part in mm.split("#@#"):
                if "=" in part:
                    k, v = part.split("=", 1)
                    d[k.strip()] = v.strip()
            direct.setdefault("disagree", []).append(d)
    flat = re.sub(r"\s+", " ", out).replace('""', '"')
    mism = []
    for mm in flat.split("#@#REAL")[1:]:
        mm = mm.split("#@#END")[0]
        d = {"system": name}
        for part in mm.split("#@#"):
            if "=" in part:
                k, v = part.split("=", 1)
                d[k.strip()] = v.strip()
        mism.append(d)
    return len(rows), committed, mism, None


def _prod(xs):
    p = 1
    for x in xs:
        p *= x
    return p


# ---------------------------------------------------------------- run o symex_go against the direct interpreter (coq/C02/Direct.v)

def direct_walks(info, sysd, rnds, steps, log):
    """walks of the TLA+ model; at every attempt the symbolic semantics of the Go body is compared with the direct
    environment-passing interpreter. -> (agree, agree-up-to-eager-error, [disagreement dicts], error)"""
    name = info["name"]
    e = ensure_walkdefs(info, log)
    if e:
        return 0, 0, [], e
    with vlib.CoqLock():
        for rel, deps in [("C02/Direct.v", BASE_DEPS[:2]), ("C02/DirectWalk.v", BASE_DEPS[:2] + ["C02/Show.v", "C02/Walk.v", "C02/Direct.v"])]:
            if stale(rel, deps):
                rc, o, er = coqc(rel)
                if rc != 0:
                    return 0, 0, [], "%s does not compile: %s" % (rel, (o + er)[-500:])
    procs = {}
    for l in info["labels"]:
        if "godef" in l:
            procs.setdefault(l["proc"], []).append('("%s", %s)' % (l["tla_action"], l["godef"]))
    btab = "; ".join('("%s", (%s_inst_%s, [%s]))' % (p, name, cid(p), "; ".join(rows)) for p, rows in procs.items())
    ncs = 1 + len(sysd.get("alt_constants", []))
    body = ("From PGV Require Import C02.Lang C02.Sem C02.Show C02.Walk C02.Direct C02.DirectWalk C02.Bind_%s %s.%s_go %s.%s_tla %s.%s_trees %s.%s_walkdefs.\n"
            "Open Scope string_scope.\nDefinition B : btable := [%s].\n" % (name, GEN_NAME, name, GEN_NAME, name, GEN_NAME, name, GEN_NAME, name, btab))
    body += "Definition R := Eval vm_compute in map (fun rnd => one_dwalk %d (%s_W (Nat.modulo (N.to_nat (hd 0%%N rnd)) %d)) %s_tla_locals B (map N.to_nat rnd)) [%s]%%N.\nPrint R.\n" % (
        steps, name, ncs, name, ";\n ".join("[" + "; ".join(str(x) for x in r) + "]" for r in rnds))
    rc, out, err = coq_scratch("C02_direct_%s_%d" % (name, os.getpid()), body, timeout=1500)
    if rc != 0:
        return 0, 0, [], "direct-interpreter comparison of %s failed: %s" % (name, (out + err)[-600:])
    flat = re.sub(r"\s+", " ", out).replace('""', '"')
    agree = lazy = 0
    bad = []
    for rep in flat.split("#@#ENDDW")[:-1]:
        m = re.search(r"#@#COUNTS (\d+) (\d+)", rep)
        if m:
            agree += int(m.group(1))
            lazy += int(m.group(2))
        for mm in rep.split("#@#DIRECT")[1:]:
            mm = mm.split("#@#END")[0]
            d = {"system": name}
            for part in mm.split("#@#"):
                if "=" in part:
                    k, v = part.split("=", 1)
                    d[k.strip()] = v.strip()
            bad.append(d)
    return agree, lazy, bad, None


def replay_seed_case(info, case, log):
    """replay of a witness found on a seed: the state is RECOMPUTED from Init by the stored schedule (TLA+ model), then
    both trees of the label are compared on it. -> (mismatch dicts, note)"""
    name = info["name"]
    e = ensure_walkdefs(info, log)
    if e:
        return [], e
    ents = []
    for ent in case.get("schedule") or []:
        key, selfs, ks = ent.lstrip("~").split("/")
        ents.append('("%s", VNum (%d), [%s]%%nat)' % (key, int(selfs), "; ".join(x for x in ks.split(".") if x != "")))
    cs = case.get("cset") or 0
    body = ("From PGV Require Import C02.Lang C02.Sem C02.Show C02.Walk %s.%s_walkdefs.\nOpen Scope string_scope.\nOpen Scope Z_scope.\n"
            "Definition W := %s_W %d.\n"
            "Definition st0 : gstate := match init_state W (w_init W) [] [%s]%%nat with Ok s => s | Err _ => [] end.\n"
            "Definition st : gstate := replay_sched W st0 [%s].\n"
            "Definition R := Eval vm_compute in scan_seed W \"%s\" \"%s\" st \"0\".\nPrint R.\n"
            % (GEN_NAME, name, name, cs, "; ".join(str(x) for x in (case.get("init_rnd") or [])), ";\n ".join(ents),
               case.get("process"), case.get("label")))
    rc, out, err = coq_scratch("C02_replayseed_%s_%d" % (name, os.getpid()), body, timeout=900)
    if rc != 0:
        return [], "replay evaluation failed: " + (out + err)[-500:]
    flat = re.sub(r"\s+", " ", out).replace('""', '"')
    res = []
    for mm in flat.split("#@#MISMATCH")[1:]:
        mm = mm.split("#@#END")[0]
        d = {}
        for part in mm.split("#@#"):
            if "=" in part:
                k, v = part.split("=", 1)
                d[k.strip()] = v.strip()
        res.append(d)
    return res, None
