"""Reference semantics of the TLA+ operators of distsys/tla (Python side of the C03 check).

Written from Specifying Systems / the standard modules, for the int32 fragment TLC implements; every
edge decision below was probed with TLC (see notes/C03.md).  Values are hashable Python objects:
  ("d",) ("b",bool) ("n",int) ("s",str) ("S",frozenset) ("T",tuple) ("F",frozenset of (k,v))
With ident=True (TLA+/TLC) a function whose domain is 1..n IS the tuple (so ("F",..) never has such a
domain); with ident=False tuples and functions are kept apart as the Go runtime does (used only to
classify a disagreement as the known tuple/function finding).
"""
import itertools

INT_MIN, INT_MAX = -2**31, 2**31 - 1


class SpecErr(Exception):
    """TLC reports an error"""


class Unknown(Exception):
    """outside what this reference decides (e.g. duplicate record keys): the oracle skips the case"""


def mkfun(pairs, ident):
    d = dict(pairs)
    if ident:
        n = len(d)
        if all(("n", i) in d for i in range(1, n + 1)):
            return ("T", tuple(d[("n", i)] for i in range(1, n + 1)))
    return ("F", frozenset(d.items()))


def norm(v, ident=True):
    """wire value -> semantic value"""
    t = v[0]
    if t == "W":
        return norm(v[2], ident)
    if t == "d":
        return ("d",)
    if t == "b":
        return ("b", bool(v[1]))
    if t == "n":
        return ("n", int(v[1]))
    if t == "s":
        return ("s", v[1])
    if t == "S":
        return ("S", frozenset(norm(x, ident) for x in v[1]))
    if t == "T":
        return ("T", tuple(norm(x, ident) for x in v[1]))
    if t == "F":
        d = {}
        for k, x in v[1]:
            d[norm(k, ident)] = norm(x, ident)
        return mkfun(d.items(), ident)
    raise ValueError(v)


def has_seq_function(v):
    """the representation contains a function (not a tuple) whose domain is 1..n, n >= 0"""
    t = v[0]
    if t in ("S", "T"):
        return any(has_seq_function(x) for x in v[1])
    if t == "F":
        keys = [k for k, _ in v[1]]
        if all(k[0] == "n" for k in keys) and sorted(k[1] for k in keys) == list(range(1, len(set(k[1] for k in keys)) + 1)):
            return True
        return any(has_seq_function(k) or has_seq_function(x) for k, x in v[1])
    return False


def non_denotable(v):
    """the representation holds a function in which two keys that TLA+ identifies (a tuple and the function with the
    same graph over 1..n, at any depth) carry different values: no TLA+ value corresponds to it, and neither this
    reference nor Base/Ops.v says anything about it (TLC: (<<>> :> 2) @@ ([x \\in {} |-> x] :> 3) = (<<>> :> 2))"""
    t = v[0]
    if t == "W":
        return non_denotable(v[2] if len(v) > 2 else v[1])
    if t in ("S", "T"):
        return any(non_denotable(x) for x in v[1])
    if t == "F":
        if any(non_denotable(k) or non_denotable(x) for k, x in v[1]):
            return True
        byrep, bynorm = {}, {}
        for k, x in v[1]:
            byrep[norm(k, False)] = norm(x, True)       # what the runtime holds (later bindings of an Equal key win)
        for k, x in byrep.items():
            nk = norm_again(k)
            if nk in bynorm and bynorm[nk] != x:
                return True
            bynorm[nk] = x
        return False
    return False


def norm_again(x):
    """identify tuples and 1..n-functions in a semantic value computed without the identification"""
    t = x[0]
    if t == "S":
        return ("S", frozenset(norm_again(e) for e in x[1]))
    if t == "T":
        return ("T", tuple(norm_again(e) for e in x[1]))
    if t == "F":
        return mkfun([(norm_again(k), norm_again(v)) for k, v in x[1]], True)
    return x


def kind(x):
    return x[0]


def as_bool(x):
    if x[0] != "b":
        raise SpecErr("not a boolean")
    return x[1]


def as_int(x):
    if x[0] != "n":
        raise SpecErr("not an integer")
    return x[1]


def as_set(x):
    if x[0] != "S":
        raise SpecErr("not a set")
    return x[1]


def as_seq(x):
    if x[0] != "T":
        raise SpecErr("not a sequence")
    return x[1]


def fun_items(x):
    """function-like value -> dict"""
    if x[0] == "T":
        return {("n", i + 1): e for i, e in enumerate(x[1])}
    if x[0] == "F":
        return dict(x[1])
    raise SpecErr("not a function")


def mknum(z):
    if not (INT_MIN <= z <= INT_MAX):
        raise SpecErr("overflow")
    return ("n", z)


def comparable(a, b):
    """TLC's top-level comparability for = and #"""
    ka, kb = a[0], b[0]
    if ka == "d" or kb == "d":
        return True          # model value: comparable with everything, equal only to itself
    fl = ("T", "F")
    if ka in fl and kb in fl:
        return True
    return ka == kb


class Sem:
    def __init__(self, ident=True, strict_eq=True, strings_are_seqs=True, assert_checks_msg=False):
        self.ident = ident
        self.strict_eq = strict_eq
        self.strings_are_seqs = strings_are_seqs
        self.assert_checks_msg = assert_checks_msg

    # ---------------- closures (mirror harness/cmd/c03 and coq/C03/Impl.v)
    def pred(self, cl):
        name = cl[0]
        c = norm(cl[1], self.ident) if len(cl) > 1 else None
        if name == "true":
            return lambda a: True
        if name == "false":
            return lambda a: False
        if name == "isnum":
            return lambda a: a[0][0] == "n"
        if name == "gt":
            return lambda a: as_int(a[0]) > as_int(c)
        if name == "eq":        # equality inside closures is structural (strictness is judged on direct = only)
            return lambda a: a[0] == c
        if name == "neq":
            return lambda a: a[0] != c
        if name == "in":
            return lambda a: a[0] in as_set(c)
        if name == "lt2":
            return lambda a: as_int(a[0]) < as_int(a[1])
        if name == "eq2":
            return lambda a: a[0] == a[1]
        if name == "asbool":
            return lambda a: as_bool(a[0])
        if name == "tuplt":
            return lambda a: as_int(self.op("Apply", [a[0], ("n", 1)])) < as_int(self.op("Apply", [a[0], ("n", 2)]))
        raise ValueError(name)

    def body(self, cl):
        name = cl[0]
        c = norm(cl[1], self.ident) if len(cl) > 1 else None
        if name == "id":
            return lambda a: a[0]
        if name == "const":
            return lambda a: c
        if name == "tuple":
            return lambda a: ("T", tuple(a))
        if name == "plus":
            return lambda a: mknum(as_int(a[0]) + as_int(c))
        if name == "single":
            return lambda a: ("S", frozenset([a[0]]))
        if name == "isnum":
            return lambda a: ("b", a[0][0] == "n")
        if name == "mod":
            return lambda a: self.op("Mod", [a[0], c])
        if name == "last":
            return lambda a: a[-1]
        if name == "tupswap":
            return lambda a: ("T", (self.op("Apply", [a[0], ("n", 2)]), self.op("Apply", [a[0], ("n", 1)])))
        raise ValueError(name)

    # ---------------- operators; returns ("ok", v) | ("okstr",) | ("member", frozenset) | ("oneof", set of outcomes)
    def apply(self, opname, wire_args, fn=None, subs=None):
        if self.ident:
            consts = [fn[1]] if fn and len(fn) > 1 else []
            for sb in (subs or []):
                consts += list(sb["keys"]) + ([sb["val"][1]] if len(sb["val"]) > 1 else [])
            if any(non_denotable(a) for a in list(wire_args) + consts):
                raise Unknown("an argument is not a TLA+ value (a function with two identified keys carrying different values)")
        args = [norm(a, self.ident) for a in wire_args]
        try:
            if opname in ("Forall", "Exists"):
                return self.quant(opname, args, self.pred(fn))
            if opname == "Choose":
                return self.choose(args, self.pred(fn))
            if opname == "SelectElement":
                s = as_set(args[0]); i = as_int(args[1])
                if 0 <= i < len(s):
                    return ("member", s)
                raise SpecErr("no such element")
            if opname == "ToString":
                return ("okstr",)
            if opname == "Seq":
                s = as_set(args[0])
                if not s:
                    return ("ok", ("S", frozenset([("T", ())])))
                return ("infinite",)
            if opname == "Except":
                return self.except_(args[0], subs)
            return ("ok", self.op(opname, args, fn))
        except SpecErr as e:
            return ("err", str(e))

    def quant(self, opname, args, p):
        sets = [as_set(a) for a in args]
        outs = []
        for combo in itertools.product(*sets):
            try:
                outs.append(bool(p(list(combo))))
            except SpecErr:
                outs.append(None)
        decisive = False if opname == "Forall" else True
        if decisive in outs:
            acc = {("ok", ("b", decisive))}
            if None in outs:
                acc.add(("err",))
            return ("oneof", acc)
        if None in outs:
            return ("err", "predicate fails")
        return ("ok", ("b", not decisive))

    def choose(self, args, p):
        s = as_set(args[0])
        cands, errs = set(), False
        for x in s:
            try:
                if p([x]):
                    cands.add(x)
            except SpecErr:
                errs = True
        if errs:
            return ("member_or_err", frozenset(cands))
        if not cands:
            raise SpecErr("CHOOSE: no candidate")
        return ("member", frozenset(cands))

    def except_(self, src, subs):
        restricted = [False]

        def upd(cur, keys, valf):
            if not keys:
                return valf([cur])
            if cur[0] not in ("T", "F"):
                raise SpecErr("EXCEPT applied to a non-function")
            d = fun_items(cur)
            k = keys[0]
            if cur[0] == "T" and k[0] != "n":
                raise SpecErr("tuple at a non integral index")
            if k not in d:
                restricted[0] = True       # TLC: unchanged (with a warning); the fragment may fail loudly
                return cur
            d[k] = upd(d[k], keys[1:], valf)
            return mkfun(d.items(), True) if cur[0] == "T" or self.ident else ("F", frozenset(d.items()))

        cur = src
        for s in subs:
            keys = [norm(k, self.ident) for k in s["keys"]]
            cur = upd(cur, keys, self.body(s["val"]))
        return ("ok", cur, restricted[0])

    def op(self, o, a, fn=None):
        B = lambda x: ("b", x)
        if o == "Assert":
            if not as_bool(a[0]):
                raise SpecErr("assertion failed")
            if self.assert_checks_msg and a[1][0] != "s":
                raise SpecErr("message is not a string")
            return B(True)
        if o in ("Eq", "Neq"):
            if self.strict_eq and not comparable(a[0], a[1]):
                raise SpecErr("incomparable kinds")
            return B((a[0] == a[1]) == (o == "Eq"))
        if o == "Not":
            return B(not as_bool(a[0]))
        if o == "Equiv":
            return B(as_bool(a[0]) == as_bool(a[1]))
        if o == "And":
            return B(as_bool(a[0]) and as_bool(a[1]))
        if o == "Or":
            return B(as_bool(a[0]) or as_bool(a[1]))
        if o == "Implies":
            return B((not as_bool(a[0])) or as_bool(a[1]))
        if o == "If":
            return a[1] if as_bool(a[0]) else a[2]
        if o == "Plus":
            return mknum(as_int(a[0]) + as_int(a[1]))
        if o == "Minus":
            return mknum(as_int(a[0]) - as_int(a[1]))
        if o == "Times":
            return mknum(as_int(a[0]) * as_int(a[1]))
        if o == "Pow":
            x, y = as_int(a[0]), as_int(a[1])
            if y < 0 or (x == 0 and y == 0):
                raise SpecErr("bad exponent")
            if abs(x) > 1 and y > 32:
                raise SpecErr("overflow")
            return mknum(x ** y)
        if o == "Le":
            return B(as_int(a[0]) <= as_int(a[1]))
        if o == "Ge":
            return B(as_int(a[0]) >= as_int(a[1]))
        if o == "Lt":
            return B(as_int(a[0]) < as_int(a[1]))
        if o == "Gt":
            return B(as_int(a[0]) > as_int(a[1]))
        if o == "DotDot":
            x, y = as_int(a[0]), as_int(a[1])
            if y - x > 100000:
                raise Unknown("range too large for the reference")
            return ("S", frozenset(("n", i) for i in range(x, y + 1)))
        if o == "Div":
            x, y = as_int(a[0]), as_int(a[1])
            if y == 0:
                raise SpecErr("division by zero")
            return mknum(x // y)
        if o == "Mod":
            x, y = as_int(a[0]), as_int(a[1])
            if y <= 0:
                raise SpecErr("modulus must be positive")
            return mknum(x % y)
        if o == "Neg":
            return mknum(-as_int(a[0]))
        if o == "In":
            return B(a[0] in as_set(a[1]))
        if o == "NotIn":
            return B(a[0] not in as_set(a[1]))
        if o == "Intersect":
            return ("S", as_set(a[0]) & as_set(a[1]))
        if o == "Union":
            return ("S", as_set(a[0]) | as_set(a[1]))
        if o == "SubsetEq":
            return B(as_set(a[0]) <= as_set(a[1]))
        if o == "SetMinus":
            return ("S", as_set(a[0]) - as_set(a[1]))
        if o == "SUBSET":
            s = list(as_set(a[0]))
            if len(s) > 12:
                raise Unknown("too large")
            return ("S", frozenset(("S", frozenset(c)) for r in range(len(s) + 1) for c in itertools.combinations(s, r)))
        if o == "UNION":
            out = set()
            for m in as_set(a[0]):
                out |= as_set(m)
            return ("S", frozenset(out))
        if o == "IsFiniteSet":
            as_set(a[0])
            return B(True)
        if o == "Cardinality":
            return mknum(len(as_set(a[0])))
        if o == "Len":
            if a[0][0] == "s" and self.strings_are_seqs:
                return mknum(len(a[0][1].encode("utf8")))
            return mknum(len(as_seq(a[0])))
        if o == "Concat":
            if a[0][0] == "s" and a[1][0] == "s" and self.strings_are_seqs:
                return ("s", a[0][1] + a[1][1])
            return ("T", as_seq(a[0]) + as_seq(a[1]))
        if o == "Append":
            return ("T", as_seq(a[0]) + (a[1],))
        if o == "Head":
            s = as_seq(a[0])
            if not s:
                raise SpecErr("Head of the empty sequence")
            return s[0]
        if o == "Tail":
            if a[0][0] == "s" and self.strings_are_seqs:        # TLC: Tail("ab") = "b" (Head and Append refuse strings)
                if not a[0][1]:
                    raise SpecErr("Tail of the empty string")
                return ("s", a[0][1][1:])
            s = as_seq(a[0])
            if not s:
                raise SpecErr("Tail of the empty sequence")
            return ("T", s[1:])
        if o == "SubSeq":
            if a[0][0] == "s" and self.strings_are_seqs:        # TLC: SubSeq("abc",2,3) = "bc"
                if not all(ord(c) < 128 for c in a[0][1]):
                    raise Unknown("non-ASCII string")
                m, n = as_int(a[1]), as_int(a[2])
                if m > n:
                    return ("s", "")
                if m < 1 or n > len(a[0][1]):
                    raise SpecErr("SubSeq out of range")
                return ("s", a[0][1][m - 1:n])
            s = as_seq(a[0]); m, n = as_int(a[1]), as_int(a[2])
            if m > n:
                return ("T", ())
            if m < 1 or n > len(s):
                raise SpecErr("SubSeq out of range")
            return ("T", s[m - 1:n])
        if o == "SelectSeq":
            raise Unknown("SelectSeq takes an operator argument; the runtime function cannot receive one")
        if o == "ColonGt":
            return mkfun([(a[0], a[1])], self.ident)
        if o == "AtAt":
            d = fun_items(a[1]); d.update(fun_items(a[0]))
            return mkfun(d.items(), self.ident)
        if o == "Domain":
            return ("S", frozenset(fun_items(a[0]).keys()))
        if o == "Apply":
            if a[0][0] == "T":
                if a[1][0] != "n":
                    raise SpecErr("tuple at a non integral index")
                i = a[1][1]
                if not (1 <= i <= len(a[0][1])):
                    raise SpecErr("index out of range")
                return a[0][1][i - 1]
            d = fun_items(a[0])
            if a[1] not in d:
                raise SpecErr("argument outside the domain")
            return d[a[1]]
        if o == "MakeSet":
            return ("S", frozenset(a))
        if o == "MakeTuple":
            return ("T", tuple(a))
        if o == "MakeRecord":
            ks = a[0::2]
            if len(set(ks)) != len(ks):
                raise Unknown("duplicate record keys")
            return mkfun(list(zip(a[0::2], a[1::2])), self.ident)
        if o == "MakeRecordSet":
            ks = a[0::2]
            if len(set(ks)) != len(ks):
                raise Unknown("duplicate record keys")
            sets = [as_set(s) for s in a[1::2]]
            return ("S", frozenset(mkfun(list(zip(ks, combo)), self.ident) for combo in itertools.product(*sets)))
        if o == "MakeFunctionSet":
            dom, rng = list(as_set(a[0])), as_set(a[1])
            if len(rng) ** len(dom) > 5000:
                raise Unknown("too large")
            return ("S", frozenset(mkfun(list(zip(dom, combo)), self.ident) for combo in itertools.product(rng, repeat=len(dom))))
        if o == "CrossProduct":
            sets = [as_set(s) for s in a]
            return ("S", frozenset(("T", combo) for combo in itertools.product(*sets)))
        if o == "SetRefinement":
            p = self.pred(fn)
            return ("S", frozenset(x for x in as_set(a[0]) if p([x])))
        if o == "SetComprehension":
            b = self.body(fn)
            return ("S", frozenset(b(list(c)) for c in itertools.product(*[as_set(s) for s in a])))
        if o == "MakeFunction":
            b = self.body(fn)
            sets = [as_set(s) for s in a]
            if not sets:
                raise SpecErr("no domain")
            if len(sets) == 1:
                return mkfun([(x, b([x])) for x in sets[0]], self.ident)
            return mkfun([(("T", c), b(list(c))) for c in itertools.product(*sets)], self.ident)
        raise ValueError("unknown operator " + o)


# which argument positions must be a function (F) / a sequence (T) for the Go implementation: a loud failure is
# permitted by the statement when the argument is the other representation of a function
NEEDS_FUN = {"AtAt": (0, 1), "Domain": (0,)}
NEEDS_SEQ = {"Len": (0,), "Concat": (0, 1), "Append": (0,), "Head": (0,), "Tail": (0,), "SubSeq": (0,)}


def restricted(opname, wire_args):
    for i in NEEDS_FUN.get(opname, ()):
        if i < len(wire_args) and wire_args[i][0] == "T":
            return True
    for i in NEEDS_SEQ.get(opname, ()):
        if i < len(wire_args) and wire_args[i][0] == "F":
            return True
    return False
