"""Value generator, denotation, printer-syntax parser and Coq printing for TLA+ runtime values.
Shared by props/c05.py and props/c03.py.

Wire syntax (JSON, same as harness/cmd/c05):
  ["d"] | ["b",bool] | ["n",int] | ["s",str] | ["S",[V..]] | ["T",[V..]] | ["F",[[K,V]..]] | ["W",clock,V]
  clock (input) = [[archetype, selfV, count]..] ; clock (dump) = [[archetype, selfString, count]..]
"""
import json

INT_MIN, INT_MAX = -2**31, 2**31 - 1
BOUNDARY_INTS = [0, 1, -1, 2, -2, 7, -7, 10, 255, 256, 65535, 65536, INT_MAX, INT_MIN, INT_MAX - 1, INT_MIN + 1]
TRICKY_STRINGS = ["", " ", "a", "b", "ab", "a,b", "{}", "<<>>", "x\"y", "back\\slash", "\\\"", ") :> (", " @@ ", "TRUE", "defaultInitValue",
                  "-1", "12", "[x \\in {} |-> x]", "tab?", "~!#$%&'*+/:;=?@^_`|", "key", "value", "mtype", "0"]
NONASCII_STRINGS = ["é", "naïve", "中", "a\nb", "\t", "\x7f", "\x00z"]


# ---------------------------------------------------------------- generation
def gen_leaf(rng, ascii_only=True):
    r = rng.random()
    if r < 0.08:
        return ["d"]
    if r < 0.22:
        return ["b", rng.random() < 0.5]
    if r < 0.62:
        return ["n", rng.choice(BOUNDARY_INTS) if rng.random() < 0.35 else rng.randint(-20, 20)]
    if not ascii_only and rng.random() < 0.15:
        return ["s", rng.choice(NONASCII_STRINGS)]
    if rng.random() < 0.5:
        return ["s", rng.choice(TRICKY_STRINGS)]
    return ["s", "".join(chr(rng.randint(32, 126)) for _ in range(rng.randint(0, 6)))]


def gen_value(rng, depth, ascii_only=True, width=5):
    if depth <= 0 or rng.random() < 0.18:
        return gen_leaf(rng, ascii_only)
    k = rng.random()
    n = rng.randint(0, width)
    if k < 0.36:
        return ["S", [gen_value(rng, depth - 1, ascii_only, width) for _ in range(n)]]
    if k < 0.66:
        return ["T", [gen_value(rng, depth - 1, ascii_only, width) for _ in range(n)]]
    # functions: record-like (string keys), sequence-like (1..n), or arbitrary keys
    m = rng.random()
    if m < 0.4:
        keys = [["s", s] for s in rng.sample(TRICKY_STRINGS, n)]
    elif m < 0.6:
        keys = [["n", i + 1] for i in range(n)]
    else:
        keys = [gen_value(rng, depth - 1, ascii_only, width) for _ in range(n)]
    return ["F", [[k_, gen_value(rng, depth - 1, ascii_only, width)] for k_ in keys]]


def depth(v):
    t = v[0]
    if t in ("S", "T"):
        return 1 + max([depth(x) for x in v[1]] or [0])
    if t == "F":
        return 1 + max([max(depth(k), depth(x)) for k, x in v[1]] or [0])
    if t == "W":
        return depth(v[2])
    return 0


def gen_clock(rng):
    return [[rng.choice(["AServer", "AClient", "A"]), rng.choice([["n", 1], ["n", 2], ["s", "x"], ["n", -3]]), rng.randint(1, 3)]
            for _ in range(rng.randint(0, 3))]


def variant(rng, v, wrap=False, dup=True):
    """the same TLA+ value built differently: members in another order, some inserted twice (in another
    variant), optionally causal wrappers around any node"""
    t = v[0]
    if t == "W":
        return variant(rng, v[2], wrap, dup)
    if t == "S":
        ms = [variant(rng, x, wrap, dup) for x in v[1]]
        if dup and ms and rng.random() < 0.4:
            ms.append(variant(rng, rng.choice(v[1]), wrap, dup))
        rng.shuffle(ms)
        out = ["S", ms]
    elif t == "T":
        out = ["T", [variant(rng, x, wrap, dup) for x in v[1]]]
    elif t == "F":
        ps = [[variant(rng, k, wrap, dup), variant(rng, x, wrap, dup)] for k, x in v[1]]
        rng.shuffle(ps)
        if dup and v[1] and rng.random() < 0.3:
            # an earlier binding of a key that a later one overrides (MakeRecord keeps the last)
            k, x = rng.choice(v[1])
            ps.insert(0, [variant(rng, k, wrap, dup), gen_leaf(rng)])
        out = ["F", ps]
    else:
        out = list(v)
    if wrap and rng.random() < 0.3:
        out = ["W", gen_clock(rng), out]
    return out


def leaves(v, path=()):
    t = v[0]
    if t == "W":
        yield from leaves(v[2], path + (2,))
    elif t in ("S", "T"):
        if not v[1]:
            yield path
        for i, x in enumerate(v[1]):
            yield from leaves(x, path + (1, i))
    elif t == "F":
        if not v[1]:
            yield path
        for i, (k, x) in enumerate(v[1]):
            yield from leaves(k, path + (1, i, 0))
            yield from leaves(x, path + (1, i, 1))
    else:
        yield path


def get_at(v, path):
    for p in path:
        v = v[p]
    return v


def set_at(v, path, new):
    if not path:
        return new
    v = list(v) if not isinstance(v, tuple) else list(v)
    v[path[0]] = set_at(v[path[0]], path[1:], new)
    return v


def containers(v, path=()):
    t = v[0]
    if t == "W":
        yield from containers(v[2], path + (2,))
    elif t in ("S", "T"):
        yield path
        for i, x in enumerate(v[1]):
            yield from containers(x, path + (1, i))
    elif t == "F":
        yield path
        for i, (k, x) in enumerate(v[1]):
            yield from containers(k, path + (1, i, 0))
            yield from containers(x, path + (1, i, 1))


def near_miss(rng, v):
    """a value differing from v in exactly one leaf (or one empty container), or with one member of
    one container dropped / added (sub- and supersets, prefixes, restrictions)"""
    v = json.loads(json.dumps(v))
    cs = list(containers(v))
    if cs and rng.random() < 0.35:
        p = rng.choice(cs)
        c = get_at(v, p)
        ms = list(c[1])
        if ms and rng.random() < 0.5:
            del ms[rng.randrange(len(ms))]
        else:
            extra = gen_leaf(rng)
            ms.insert(rng.randint(0, len(ms)), [extra, gen_leaf(rng)] if c[0] == "F" else extra)
        return set_at(v, p, [c[0], ms])
    ps = list(leaves(v))
    p = rng.choice(ps)
    old = get_at(v, p)
    t = old[0]
    if t == "n":
        new = ["n", old[1] + 1 if old[1] < INT_MAX else old[1] - 1]
        if rng.random() < 0.2:
            new = ["s", str(old[1])]
    elif t == "b":
        new = ["b", not old[1]]
    elif t == "s":
        r = rng.random()
        new = ["s", old[1] + "x"] if r < 0.5 else ["s", old[1][:-1]] if old[1] and r < 0.8 else ["s", old[1] + " "]
    elif t == "d":
        new = rng.choice([["n", 0], ["b", False], ["s", ""], ["S", []]])
    elif t == "S":
        new = rng.choice([["T", []], ["F", []], ["S", [["S", []]]]])
    elif t == "T":
        new = rng.choice([["S", []], ["F", []], ["T", [["T", []]]]])
    else:
        new = rng.choice([["S", []], ["T", []]])
    return set_at(v, p, new)


def cross_kind(rng, v):
    """a value of another kind built from the same material"""
    t = v[0]
    if t == "W":
        return cross_kind(rng, v[2])
    if t == "S":
        return rng.choice([["T", v[1]], ["F", [[x, ["b", True]] for x in v[1]]]])
    if t == "T":
        return rng.choice([["S", v[1]], ["F", [[["n", i + 1], x] for i, x in enumerate(v[1])]]])
    if t == "F":
        return rng.choice([["S", [k for k, _ in v[1]]], ["T", [x for _, x in v[1]]], ["S", [["T", [k, x]] for k, x in v[1]]]])
    if t == "n":
        return rng.choice([["s", str(v[1])], ["b", v[1] != 0], ["T", [v]], ["S", [v]]])
    if t == "b":
        return rng.choice([["n", 1 if v[1] else 0], ["s", "TRUE" if v[1] else "FALSE"]])
    if t == "s":
        return rng.choice([["T", [["s", c] for c in v[1]]], ["S", [v]], ["d"]])
    return rng.choice([["n", 0], ["s", "defaultInitValue"], ["S", []], ["T", []], ["F", []], ["b", False]])


# ---------------------------------------------------------------- denotation (Python-side semantic value)
def sem(v):
    """the TLA+ value denoted, as a hashable Python object; wrappers are transparent; later bindings of a
    function key override earlier ones (MakeRecord / builder.Set)"""
    t = v[0]
    if t == "W":
        return sem(v[2])
    if t == "d":
        return ("d",)
    if t == "b":
        return ("b", bool(v[1]))
    if t == "n":
        return ("n", int(v[1]))
    if t == "s":
        return ("s", v[1])
    if t == "S":
        return ("S", frozenset(sem(x) for x in v[1]))
    if t == "T":
        return ("T", tuple(sem(x) for x in v[1]))
    if t == "F":
        d = {}
        for k, x in v[1]:
            d[sem(k)] = sem(x)
        return ("F", frozenset(d.items()))
    raise ValueError(v)


def has_dups(v):
    """True if some set / function domain of the representation holds two members denoting the same value"""
    t = v[0]
    if t == "W":
        return has_dups(v[2])
    if t == "S":
        return any(has_dups(x) for x in v[1]) or len({sem(x) for x in v[1]}) != len(v[1])
    if t == "T":
        return any(has_dups(x) for x in v[1])
    if t == "F":
        return any(has_dups(k) or has_dups(x) for k, x in v[1]) or len({sem(k) for k, _ in v[1]}) != len(v[1])
    return False


def printable_ascii(v):
    t = v[0]
    if t == "W":
        return printable_ascii(v[2])
    if t == "s":
        return all(32 <= ord(c) <= 126 for c in v[1])
    if t in ("S", "T"):
        return all(printable_ascii(x) for x in v[1])
    if t == "F":
        return all(printable_ascii(k) and printable_ascii(x) for k, x in v[1])
    return True


def clock_sem_input(clk):
    d = {}
    for name, selfv, cnt in clk:
        key = (name, sem(selfv))
        d[key] = d.get(key, 0) + cnt
    return d


def clock_sem_dump(clk):
    d = {}
    for name, selfs, cnt in clk:
        d[(name, sem(parse_tla(selfs)))] = cnt
    return d


def semw(v, dump):
    """denotation that keeps the causal wrappers (for 'clock preserved' comparisons between dumps)"""
    t = v[0]
    if t == "W":
        c = clock_sem_dump(v[1]) if dump else clock_sem_input(v[1])
        return ("W", frozenset(c.items()), semw(v[2], dump))
    if t == "S":
        return ("S", frozenset(semw(x, dump) for x in v[1]))
    if t == "T":
        return ("T", tuple(semw(x, dump) for x in v[1]))
    if t == "F":
        return ("F", frozenset((semw(k, dump), semw(x, dump)) for k, x in v[1]))
    return sem(v)


# ---------------------------------------------------------------- parser for Value.String()
class ParseError(Exception):
    pass


def parse_tla(s):
    """parse the TLA+ constant expression syntax printed by tla.Value.String(); returns a wire value"""
    pos = 0
    n = len(s)

    def expect(tok):
        nonlocal pos
        if not s.startswith(tok, pos):
            raise ParseError("expected %r at %d in %r" % (tok, pos, s[:80]))
        pos += len(tok)

    def value():
        nonlocal pos
        if s.startswith("defaultInitValue", pos):
            pos += 16
            return ["d"]
        if s.startswith("TRUE", pos):
            pos += 4
            return ["b", True]
        if s.startswith("FALSE", pos):
            pos += 5
            return ["b", False]
        if s.startswith("[x \\in {} |-> x]", pos):
            pos += 16
            return ["F", []]
        if s.startswith("<<", pos):
            pos += 2
            xs = seq(">>")
            return ["T", xs]
        if s.startswith("{", pos):
            pos += 1
            xs = seq("}")
            return ["S", xs]
        if s.startswith("(", pos):
            pos += 1
            ps = []
            while True:
                expect("(")
                k = value()
                expect(") :> (")
                x = value()
                expect(")")
                ps.append([k, x])
                if s.startswith(" @@ ", pos):
                    pos += 4
                    continue
                break
            expect(")")
            return ["F", ps]
        if s.startswith('"', pos):
            pos += 1
            out = []
            while True:
                if pos >= n:
                    raise ParseError("unterminated string")
                c = s[pos]
                if c == '"':
                    pos += 1
                    break
                if c == "\\":
                    if pos + 1 >= n:
                        raise ParseError("dangling backslash")
                    e = s[pos + 1]
                    if e in '"\\':
                        out.append(e)
                    elif e in "tnfr":          # the escapes TLA+ strings know
                        out.append({"t": "\t", "n": "\n", "f": "\f", "r": "\r"}[e])
                    else:
                        raise ParseError("escape \\%s is not TLA+" % e)
                    pos += 2
                    continue
                out.append(c)
                pos += 1
            return ["s", "".join(out)]
        j = pos
        if j < n and s[j] == "-":
            j += 1
        k = j
        while k < n and s[k].isdigit():
            k += 1
        if k == j:
            raise ParseError("no value at %d in %r" % (pos, s[:80]))
        v = int(s[pos:k])
        pos = k
        return ["n", v]

    def seq(close):
        nonlocal pos
        xs = []
        if s.startswith(close, pos):
            pos += len(close)
            return xs
        while True:
            xs.append(value())
            if s.startswith(", ", pos):
                pos += 2
                continue
            expect(close)
            return xs

    v = value()
    if pos != n:
        raise ParseError("trailing input at %d in %r" % (pos, s[:80]))
    return v


# ---------------------------------------------------------------- Coq printing
def coq_bytes(s):
    bs = s.encode("utf8") if isinstance(s, str) else bytes(s)
    return "[" + ";".join(str(b) for b in bs) + "]%N" if bs else "(@nil N)"


def coq_cval(v, dump=False):
    t = v[0]
    if t == "d":
        return "CDefault"
    if t == "b":
        return "(CBool %s)" % ("true" if v[1] else "false")
    if t == "n":
        return "(CNum (%d)%%Z)" % v[1]
    if t == "s":
        return "(CStr %s)" % coq_bytes(v[1])
    if t == "S":
        return "(CSet [%s])" % "; ".join(coq_cval(x, dump) for x in v[1])
    if t == "T":
        return "(CTup [%s])" % "; ".join(coq_cval(x, dump) for x in v[1])
    if t == "F":
        return "(CFun [%s])" % "; ".join("(%s, %s)" % (coq_cval(k, dump), coq_cval(x, dump)) for k, x in v[1])
    if t == "W":
        ents = []
        for name, selfv, cnt in v[1]:
            sv = parse_tla(selfv) if dump else selfv
            ents.append("(CTup [CStr %s; %s], (%d)%%Z)" % (coq_bytes(name), coq_cval(sv), cnt))
        return "(CWrap [%s] %s)" % ("; ".join(ents), coq_cval(v[2], dump))
    raise ValueError(v)


def coq_value(v):
    """plain (unwrapped) value of Base/Value.v"""
    t = v[0]
    if t == "W":
        return coq_value(v[2])
    if t == "d":
        return "VDefault"
    if t == "b":
        return "(VBool %s)" % ("true" if v[1] else "false")
    if t == "n":
        return "(VNum (%d)%%Z)" % v[1]
    if t == "s":
        return "(VStr %s)" % coq_bytes(v[1])
    if t == "S":
        return "(VSet [%s])" % "; ".join(coq_value(x) for x in v[1])
    if t == "T":
        return "(VTup [%s])" % "; ".join(coq_value(x) for x in v[1])
    if t == "F":
        return "(VFun [%s])" % "; ".join("(%s, %s)" % (coq_value(k), coq_value(x)) for k, x in v[1])
    raise ValueError(v)


# ---------------------------------------------------------------- fnv1a as the runtime hashes values (third implementation,
# used only to CONSTRUCT colliding values; the check never trusts it: Go's hashes are observed)
M32 = 0xFFFFFFFF
OFFSET32, PRIME32 = 2166136261, 16777619


def _add_byte(h, b):
    return ((h ^ b) * PRIME32) & M32


def _add_u32(h, u):
    for sh in (24, 16, 8, 0):
        h = _add_byte(h, (u >> sh) & 0xFF)
    return h


def _hash_u32(u):
    return _add_u32(OFFSET32, u & M32)


def py_hash(v):
    t = v[0]
    if t == "W":
        return py_hash(v[2])
    if t == "d":
        return 0
    if t == "b":
        return _hash_u32(1 if v[1] else 0)
    if t == "n":
        return _hash_u32(v[1] & M32)
    if t == "s":
        h = OFFSET32
        for b in v[1].encode("utf8"):
            h = _add_byte(h, b)
        return h
    if t == "S":
        x = 0
        seen = set()
        for e in v[1]:
            if sem(e) not in seen:
                seen.add(sem(e)); x ^= py_hash(e)
        return _hash_u32(x)
    if t == "T":
        h = OFFSET32
        for e in v[1]:
            h = _add_u32(h, py_hash(e))
        return h
    if t == "F":
        d = {}
        for k, x in v[1]:
            d[sem(k)] = (k, x)
        acc = 0
        for k, x in d.values():
            acc ^= _add_u32(_add_u32(OFFSET32, py_hash(k)), py_hash(x))
        return _hash_u32(acc)
    raise ValueError(v)


def s32(u):
    u &= M32
    return u - (1 << 32) if u >= (1 << 31) else u


def collider(v):
    """a value of ANOTHER kind with exactly the same 32-bit hash as v, or None"""
    t = v[0]
    if t == "W":
        return collider(v[2])
    if t == "S":
        x = 0
        seen = set()
        for e in v[1]:
            if sem(e) not in seen:
                seen.add(sem(e)); x ^= py_hash(e)
        return ["n", s32(x)]                      # Hash({..}) = HashUint32(xor of member hashes) = Hash(that number)
    if t == "F":
        d = {}
        for k, x in v[1]:
            d[sem(k)] = (k, x)
        acc = 0
        for k, x in d.values():
            acc ^= _add_u32(_add_u32(OFFSET32, py_hash(k)), py_hash(x))
        return ["n", s32(acc)]
    if t == "n":
        return ["b", v[1] == 1] if v[1] in (0, 1) else ["S", [["d"]]] if False else None
    if t == "b":
        return ["n", 1 if v[1] else 0]
    if t == "T" and not v[1]:
        return ["s", ""]
    if t == "s" and v[1] == "":
        return ["T", []]
    return None


COLLISION_CLUSTERS = [
    [["n", 0], ["b", False], ["S", []], ["F", []]],      # all hash to HashUint32(0)
    [["n", 1], ["b", True]],
    [["T", []], ["s", ""]],
]


def low_bits_pool(rng, bits=10, size=14):
    """integers whose hashes agree on the low `bits` bits (they share the HAMT path down to depth bits/5)"""
    target = rng.randrange(1 << bits)
    out, n = [], rng.randint(-50000, 50000)
    while len(out) < size:
        if py_hash(["n", n]) & ((1 << bits) - 1) == target:
            out.append(["n", n])
        n += 1
    return out


def collision_members(rng, n_min=9, n_max=14):
    """members for a set / keys for a function with more than 8 entries (the immutable.Map array-node ->
    bitmap-node threshold), containing full 32-bit hash collisions and shared low hash bits"""
    ms = []
    for cl in rng.sample(COLLISION_CLUSTERS, rng.randint(1, 3)):
        ms += rng.sample(cl, rng.randint(2, len(cl)))
    for _ in range(rng.randint(1, 3)):
        base = gen_value(rng, rng.randint(1, 2), True, 3)
        c = collider(base)
        if c is not None and sem(c) != sem(base):
            ms += [base, c]
    ms += low_bits_pool(rng, rng.choice([5, 10]), rng.randint(3, 6))
    while len({json.dumps(sem_key(m)) for m in ms}) < n_min:
        ms.append(gen_leaf(rng))
    # drop duplicates by denotation, keep order
    seen, out = set(), []
    for m in ms:
        k = sem(m)
        if k not in seen:
            seen.add(k); out.append(m)
    rng.shuffle(out)
    return out[:n_max]


def sem_key(v):
    return repr(sem(v))
