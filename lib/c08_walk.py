"""Adaptive random walks over the real generated raftkvs archetypes (harness c08), shared by C08 and C09.
The walker looks at the observed Go state to pick the next event (biased towards elections, log divergence, leader
change during replication, message loss, minority crash); every choice comes from the given rng."""
import c08_raft as R

PROFILES = {
    #            timeout  drop   crash  ctimeout  clientreq
    "steady":    (0.15,   0.03,  0.0,   0.15,     1.5),
    "elections": (1.2,    0.05,  0.0,   0.3,      1.0),
    "lossy":     (0.4,    0.25,  0.0,   0.6,      1.5),
    "crash":     (0.4,    0.05,  0.25,  0.5,      1.5),
    "retry":     (0.04,   0.04,  0.03,  1.2,      2.5),
    "service":   (0.03,   0.02,  0.0,   0.25,     3.0),
    # leader change right after a commit that reached only part of the followers (see handover_window)
    "handover":  (0.03,   0.02,  0.1,   0.15,     2.5),
    # a deaf leader steps down in the middle of its AppendEntries fan-out (see stepdown_bias)
    "stepdown":  (0.12,   0.02,  0.0,   0.3,      2.5),
}


def scripted_election(n, i=1):
    """events that make server i the leader of term 2 from the initial state (no interference)"""
    ev = [("ERVTimeout", i, True, 0)] + [("ERVSend", i, 0, True)] * (n + 1)
    others = [j for j in range(1, n + 1) if j != i]
    for j in others:
        ev += [("EServerLoop", j, 0), ("EHandleMsg", j, 0, True)]
    for j in others:
        ev += [("EServerLoop", i, 0), ("EHandleMsg", i, 0, True)]
    ev += [("EBecomeLeader", i, 0), ("EAELoop", i, 0)] + [("EAESend", i, 0, True)] * (n + 1)
    return ev


def scripted_duel(n):
    """two candidates in the same term asking everybody for a vote (no interference)"""
    if n < 2:
        return []
    ev = [("ERVTimeout", 1, True, 0), ("ERVTimeout", 2, True, 0)]
    ev += [("ERVSend", 1, 0, True)] * (n + 1) + [("ERVSend", 2, 0, True)] * (n + 1)
    return ev


def scripted_split(n):
    """even n: the two halves hold an election each in the same term (requests to the other half are lost); every candidate then
    tries to become leader with exactly half of the votes (must abort: half is not a quorum)"""
    if n < 2 or n % 2:
        return []
    a, b = 1, n // 2 + 1
    half_a, half_b = range(1, n // 2 + 1), range(n // 2 + 1, n + 1)
    ev = [("ERVTimeout", a, True, 0)] + [("ERVSend", a, 0 if j in half_a else 1, True) for j in range(1, n + 1)] + [("ERVSend", a, 0, True)]
    ev += [("ERVTimeout", b, True, 0)] + [("ERVSend", b, 0 if j in half_b else 1, True) for j in range(1, n + 1)] + [("ERVSend", b, 0, True)]
    for j in list(half_a)[1:] + list(half_b)[1:]:
        ev += [("EServerLoop", j, 0), ("EHandleMsg", j, 0, True)]
    for _ in range(n // 2 - 1):
        ev += [("EServerLoop", a, 0), ("EHandleMsg", a, 0, True), ("EServerLoop", b, 0), ("EHandleMsg", b, 0, True)]
    ev += [("EBecomeLeader", a, 0), ("EBecomeLeader", b, 0)]
    return ev


def handover_window(w):
    """(L, A, B): live leader L of the highest term whose commit index is known to follower A but not to follower B, B's log being
    as up to date as A's: a leader change to B now makes B advertise a lower leaderCommit than A's commitIndex"""
    g = w.g
    al = [i for i in w.servers() if g["network"][i]["enabled"]]
    if len(al) < 3:
        return None
    top = max(g["currentTerm"][i] for i in al)
    for L in al:
        if g["state"][L] != "leader" or g["currentTerm"][L] != top or g["commitIndex"][L] == 0:
            continue
        fol = [i for i in al if i != L and g["currentTerm"][i] == top]
        for A in fol:
            for B in fol:
                if B != A and g["commitIndex"][B] < g["commitIndex"][A] and len(g["log"][B]) >= len(g["log"][A]) \
                        and g["log"][B][:len(g["log"][A])] == g["log"][A]:
                    return (L, A, B)
    return None


def higher_term_positions(w, i):
    q = w.queue(i)
    t = w.g["currentTerm"][i]
    return [k for k in w.deliverable(i) if q[k].get("mterm", 0) > t]


def stepdown_bias(rng, w):
    """profile `stepdown`: the first leader (`w.isolated`) does not hear the other servers (their messages wait in its queue) and is
    hardly heard by them, so the others elect a new leader that commits entries the isolated one lacks. Then (`w.iso_released`) the isolated
    server starts an AppendEntries fan-out, its AServer handles a waiting message of a higher term BETWEEN two iterations of the fan-out
    (it steps down), the fan-out continues, and what it may have sent is delivered. Returns an event or None."""
    g = w.g
    iso = getattr(w, "isolated", None)
    if iso is None:
        ls = [i for i in w.servers() if g["state"][i] == "leader" and g["network"][i]["enabled"]]
        if not ls:
            return None
        iso = w.isolated = ls[0]
        w.iso_released = False
        w.iso_target = None
    w.slow = set() if w.iso_released else set([iso])
    if not w.iso_released:
        for j in w.servers():
            if j != iso and g["state"][j] == "leader" and g["currentTerm"][j] > g["currentTerm"][iso] and g["commitIndex"][j] > 0:
                for k in w.servers():
                    c = g["commitIndex"][k]
                    if k not in (iso, j) and c > 0 and g["currentTerm"][k] == g["currentTerm"][j] and g["log"][iso][:c] != g["log"][k][:c]:
                        w.iso_released, w.iso_target = True, k
        if not w.iso_released:
            return None
    k = w.iso_target
    pc2 = w.pc["s%d.2" % iso]
    idx = w.loc("s%d.2" % iso, "AServerAppendEntries.idx", 0)
    if g["state"][iso] == "leader":
        if pc2 == "AServerAppendEntries.serverAppendEntriesLoop":
            return ("EAELoop", iso, 0 if len(g["appendEntriesCh"][iso]) > 0 else 1)
        if isinstance(idx, int) and (idx > k or (idx < k and not (idx >= 2 and rng.random() < 0.3))):
            return ("EAESend", iso, 0, True)          # (idx > k: finish this fan-out, the next one is used)
        # in the middle of the fan-out: the AServer of the same server handles a message of a higher term
        if w.pc["s%d.0" % iso] == "AServer.handleMsg":
            return ("EHandleMsg", iso, 0, True)
        H = higher_term_positions(w, iso)
        if H:
            return ("EServerLoop", iso, H[0])
        return None
    if pc2 == "AServerAppendEntries.appendEntriesLoop":
        return ("EAESend", iso, 0, True)              # the rest of the fan-out after stepping down
    w.iso_tries = getattr(w, "iso_tries", 0) + 1
    if w.iso_tries > 30:
        w.isolated, w.iso_tries = None, 0
        return None
    if len(w.queue(iso)) >= w.p["buf"] - 1:          # make room for the answers to the formerly deaf server
        if w.pc["s%d.0" % iso] == "AServer.handleMsg":
            return ("EHandleMsg", iso, 0, True)
        return ("EServerLoop", iso, 0)
    q = w.queue(k)
    for pos in w.deliverable(k):
        if q[pos]["msource"] == iso and q[pos].get("mtype") == "apq":
            if w.pc["s%d.0" % k] == "AServer.handleMsg":
                return ("EHandleMsg", k, 0, True)
            return ("EServerLoop", k, pos)
    if w.pc["s%d.0" % k] == "AServer.handleMsg" and (w.loc("s%d.0" % k, "AServer.m") or {}).get("msource") == iso:
        return ("EHandleMsg", k, 0, True)
    w.isolated, w.iso_tries = None, 0                  # over: a later leader may play the part again
    return None


def tuple_event(e):
    """JSON list -> event tuple"""
    e = list(e)
    if e[0] == "EClientLoop":
        e[2] = tuple(e[2])
    return tuple(e)


def live_leader(w):
    g = w.g
    return any(g["state"][i] == "leader" and g["network"][i]["enabled"] for i in w.servers())


def pick_position(rng, w, d, D):
    """choose a deliverable position of node d's queue; messages from the walk's `slow` sources are delayed"""
    slow = getattr(w, "slow", ())
    q = w.queue(d)
    wts = [0.04 if q[k]["msource"] in slow else 1.0 for k in D]
    x = rng.random() * sum(wts)
    for k, wt in zip(D, wts):
        x -= wt
        if x <= 0:
            return k
    return D[-1]


def choose_event(rng, w, profile):
    p_timeout, p_drop, p_crash, p_ctimeout, p_creq = PROFILES[profile]
    g, n = w.g, w.n
    cands = []   # (weight, event)
    if rng.random() < 0.01:      # change which sources are slow
        nodes = list(w.servers()) + w.client_ids()
        w.slow = set(rng.sample(nodes, rng.randint(0, min(2, len(nodes)))))

    # leader change right after a commit that reached only part of the followers
    win = handover_window(w)
    if win and rng.random() < (0.9 if profile == "handover" else 0.3):
        L, A, B = win
        w.slow = set([L])                       # what the old leader still has in flight is delayed
        w.focus = (L, A, B)                     # the election of B and its first AppendEntries to A get priority from now on
        w.handovers = getattr(w, "handovers", 0) + 1
        if w.pc.get("x%d" % L) == "AServerCrasher.serverCrash" and rng.random() < 0.5:
            return ("ECrash", L)
        if w.pc["s%d.1" % B] == "AServerRequestVote.serverRequestVoteLoop":
            return ("ERVTimeout", B, True, 0)
    focus = getattr(w, "focus", None)
    if focus and (g["state"][focus[2]] == "follower" and g["currentTerm"][focus[2]] <= g["currentTerm"][focus[0]]
                  or g["commitIndex"][focus[2]] >= g["commitIndex"][focus[1]]):
        focus = w.focus = None                  # the change of leader did not happen / is over

    boost = 3.0 if profile in ("handover", "stepdown") else 1.0     # replication and commit rounds of the leader
    deaf = None
    if profile == "stepdown":
        ev = stepdown_bias(rng, w)
        if ev is not None and rng.random() < 0.9:
            return ev
        if getattr(w, "isolated", None) is not None and not getattr(w, "iso_released", False):
            deaf = w.isolated

    def send_choice():
        r = rng.random()
        if r < p_drop:
            return (1, True)
        if r < p_drop + 0.03:
            return (1, False)      # await fd[dest] fails: abort
        return (0, rng.random() < 0.5)

    for i in w.servers():
        alive = g["network"][i]["enabled"]
        f = 1.0 if alive else 0.04
        if focus:
            f *= 0.05 if i == focus[0] else 5.0 if i in focus[1:] else 0.3
        if i == deaf:
            f *= 0.3                            # fewer rounds of the isolated leader: the others get on
        q = w.queue(i)
        # AServer
        if w.pc["s%d.0" % i] == "AServer.serverLoop":
            D = w.deliverable(i)
            if i == deaf:                      # the isolated leader hears its clients only
                D = [k for k in D if q[k].get("mtype") in ("cpq", "cgq")]
            if D:
                slow = getattr(w, "slow", ())
                allslow = all(q[k]["msource"] in slow for k in D)
                cands.append(((0.5 if allslow else 6) * f, ("EServerLoop", i, pick_position(rng, w, i, D))))
            elif i != deaf:
                cands.append((0.15 * f, ("EServerLoop", i, 0)))
        else:
            br, fdv = send_choice()
            cands.append((9 * f, ("EHandleMsg", i, br, fdv)))
        # AServerRequestVote
        if w.pc["s%d.1" % i] == "AServerRequestVote.serverRequestVoteLoop":
            heard = any(g["state"][j] == "leader" and g["network"][j]["enabled"] and j != deaf for j in w.servers())
            wgt = p_timeout * (2.5 if not heard else 0.25)
            if g["state"][i] == "leader":
                wgt = 0.03
            lt = rng.random() < 0.92
            ln = 0 if rng.random() < 0.9 else rng.randint(0, len(q))
            cands.append((wgt * f, ("ERVTimeout", i, lt, ln)))
        else:
            br, fdv = send_choice()
            cands.append((6 * f, ("ERVSend", i, br, fdv)))
        # AServerAppendEntries
        if w.pc["s%d.2" % i] == "AServerAppendEntries.serverAppendEntriesLoop":
            ch = 0 if len(g["appendEntriesCh"][i]) > 0 else 1
            if rng.random() < 0.04:
                ch = 1 - ch
            cands.append(((2.0 * boost if g["state"][i] == "leader" else 0.05) * f, ("EAELoop", i, ch)))
        else:
            br, fdv = send_choice()
            cands.append((6 * f, ("EAESend", i, br, fdv)))
        # AServerAdvanceCommitIndex
        if w.pc["s%d.3" % i] == "AServerAdvanceCommitIndex.serverAdvanceCommitIndexLoop":
            cands.append(((1.5 * boost if g["state"][i] == "leader" else 0.05) * f, ("EAdvance", i)))
        else:
            cands.append((6 * f, ("EApply", i)))
        # AServerBecomeLeader
        ch = 0 if len(g["becomeLeaderCh"][i]) > 0 else 1
        if rng.random() < 0.04:
            ch = 1 - ch
        nv = len(R.setlist(g["votesGranted"][i])) if g["state"][i] == "candidate" else 0
        cands.append(((8 if 2 * nv > n else 2 if (2 * nv == n and n > 1) else 0.08) * f, ("EBecomeLeader", i, ch)))
        # crasher
        pcx = w.pc.get("x%d" % i)
        if pcx == "AServerCrasher.serverCrash":
            cands.append((p_crash * 0.15, ("ECrash", i)))
        elif pcx == "AServerCrasher.fdUpdate":
            cands.append((0.8, ("EFdUpdate", i)))
    for c in w.client_ids():
        pr = "c%d" % (c - 6 * n)
        pc = w.pc[pr]
        if pc == "AClient.clientLoop":
            k = rng.randint(1, w.p["keys"])
            if rng.random() < 0.6:
                req = ("put", k, rng.randint(1, w.p["vals"]))
            else:
                req = ("get", k, 0)
            cands.append((p_creq, ("EClientLoop", c, req)))
        elif pc == "AClient.sndReq":
            br, fdv = send_choice()
            cands.append((4, ("EClientSnd", c, rng.randint(1, n), br, fdv)))
        else:
            D = w.deliverable(c)
            if D:
                cands.append((5, ("EClientRcv", c, pick_position(rng, w, c, D))))
            else:
                cands.append((0.05, ("EClientRcv", c, 0)))
            r = rng.random()
            tm = r < 0.7
            fdv = rng.random() < 0.5
            ln = 0 if rng.random() < 0.8 else rng.randint(0, len(w.queue(c)))
            cands.append((p_ctimeout, ("EClientTimeout", c, fdv, ln, tm)))
    tot = sum(wt for wt, _ in cands)
    x = rng.random() * tot
    for wt, ev in cands:
        x -= wt
        if x <= 0:
            return ev
    return cands[-1][1]


def gen_params(rng, tier, for_c09=False, force_n=None):
    if for_c09:
        n = rng.choice([1, 1, 1, 2, 2, 3, 3, 4])
        nc = rng.choice([2, 2, 3])
        maxfail = (n - 1) // 2
        crashers = sorted(rng.sample(range(1, n + 1), rng.randint(0, maxfail))) if (maxfail > 0 and rng.random() < 0.4) else []
        return {"n": n, "nc": nc, "buf": rng.choice([3, 4, 6, 10]), "fifo": True, "explorefail": True,
                "crashers": crashers, "keys": rng.choice([1, 1, 2, 3]), "vals": rng.choice([2, 3])}
    n = rng.choice([1, 2, 2, 3, 3, 3, 4, 4, 5])
    if force_n:
        n = force_n
    nc = rng.choice([1, 1, 2, 3])
    maxfail = (n - 1) // 2
    crashers = sorted(rng.sample(range(1, n + 1), rng.randint(0, maxfail))) if maxfail > 0 else []
    return {"n": n, "nc": nc, "buf": rng.choice([2, 3, 4, 6, 10]), "fifo": True, "explorefail": True,
            "crashers": crashers, "keys": rng.choice([1, 1, 2, 3]), "vals": rng.choice([2, 3])}


class WalkResult:
    pass


def walk(h, rng, params, nsteps, profile, on_step=None, full_every=25, prefix=()):
    """returns WalkResult: steps [(observed event, code, hash, digest|None)], events (intended), failures, stats"""
    w = h.new(params)
    n = params["n"]
    nodes = list(w.servers()) + w.client_ids()
    w.slow = set(rng.sample(nodes, rng.randint(0, min(2, len(nodes)))))
    tracker = R.CommitTracker(w)
    res = WalkResult()
    res.params, res.profile = params, profile
    res.steps, res.intended, res.failures, res.picks = [], [], [], []
    res.cover = {}
    res.leaders = set()
    res.crashed = False
    res.maxnet = 0
    res.spec_lc_violations = 0
    prefix = list(prefix)
    nsteps = nsteps + len(prefix)
    for k in range(nsteps):
        ev = prefix[k] if k < len(prefix) else choose_event(rng, w, profile)
        pick = rng.randrange(n)
        m_before = w.loc("s%d.0" % ev[1], "AServer.m") if ev[0] == "EHandleMsg" else None
        ci_before = w.g["commitIndex"][ev[1]] if ev[0] == "EHandleMsg" else 0
        oev, outcome, out = R.do_event(h, w, ev, pickidx=pick)
        res.intended.append(list(ev))
        res.picks.append(pick)
        code = R.OUTCOME_CODE.get(outcome, 9)
        d = w.digest()
        last = (k == nsteps - 1)
        res.steps.append((oev, code, R.hash_digest(d), d if (last or (full_every and k % full_every == 0)) else None))
        # coverage
        key = out["label"] + ":" + outcome
        if ev[0] == "EHandleMsg" and m_before is not None:
            key += ":" + m_before["mtype"]
            if outcome == "commit" and m_before["mtype"] in ("apq", "rvq"):
                sent = [m for m in w.queue(m_before["msource"]) if m.get("msource") == ev[1]]
                if sent:
                    last_m = sent[-1]
                    key += ":" + str(last_m.get("msuccess", last_m.get("mvoteGranted")))
                    if m_before["mtype"] == "apq" and last_m.get("msuccess") and m_before["mcommitIndex"] < ci_before:
                        res.cover["handover:apq accepted with leaderCommit < commitIndex"] = \
                            res.cover.get("handover:apq accepted with leaderCommit < commitIndex", 0) + 1
        res.cover[key] = res.cover.get(key, 0) + 1
        for wv in out.get("wiring") or []:
            res.failures.append({"signature": "shared-variable-not-shared:" + wv.split("[")[0],
                                 "what": "deployment wiring (bootstrap/server.go): " + wv, "step": k})
        # oracle on the Go state
        if outcome in ("error:assert", "error:tlatype", "error:other", "hang"):
            res.failures.append({"signature": "generated-code-" + outcome.replace(":", "-") + ":" + out["label"],
                                 "what": "%s in %s: %s" % (outcome, out["label"], out.get("err", "")[:200]), "step": k})
        for sig, what in R.invariants(w) + tracker.check(w):
            res.failures.append({"signature": sig, "what": what, "step": k})
        if R.spec_leader_completeness(w) is not None:
            res.spec_lc_violations += 1
        g = w.g
        for i in w.servers():
            if g["state"][i] == "leader":
                res.leaders.add((i, g["currentTerm"][i]))
            if not g["network"][i]["enabled"]:
                res.crashed = True
        res.maxnet = max(res.maxnet, sum(1 for d_ in list(w.servers()) + w.client_ids() if len(w.queue(d_)) > 0))
        if on_step:
            on_step(w, oev, out)
        if code >= 2 or res.failures:
            break
    res.world = w
    res.nontrivial = len(res.leaders) >= 2 or res.crashed or res.maxnet >= 2
    return res
