"""C15 / C16 live (deployment smoke) runs: the real generated archetypes over the REAL deployment resources their tests use
(TCP / relaxed mailboxes on ports taken from 127.0.0.1:0, real 2PC replicas over RPC or the in-process handle, real
FailureDetector + Monitor, real FileSystem), free-running goroutines inside harness/cmd/c16 (cmd/c15 for locksvc), a deadline
on everything. Oracle-only: the schedule is whatever the Go scheduler produces; a run establishes that THIS wiring, on THIS
schedule, showed no violation of what is observable from outside. Each case runs in its own harness process (a hang or a
crash of the runtime must not disturb other cases)."""
import json
import vlib

SYSTEMS = ("live_shcounter", "live_dqueue", "live_loadbalancer", "live_proxy")


def gen(rng, tier):
    """quick: 2-3 runs of shcounter, a handful per other system; thorough: more sizes"""
    q = tier == "quick"
    cases = []
    for n, rpc in ([(4, 1), (6, 1), (3, 0), (5, 0)] if q else [(n, r) for n in (3, 4, 5, 6) for r in (1, 0) for _ in range(3)]):
        cases.append({"system": "live_shcounter", "cfg": {"NUM_NODES": n, "RPC": rpc, "DEADLINE_MS": 6000}})
    for _ in range(2 if q else 10):
        cases.append({"system": "live_dqueue", "cfg": {"NUM_CONSUMERS": rng.choice([1, 2, 3]), "ITEMS": rng.choice([4, 7, 10]), "DEADLINE_MS": 8000}})
    for _ in range(2 if q else 10):
        cases.append({"system": "live_loadbalancer", "cfg": {"NUM_SERVERS": rng.choice([1, 2, 3]), "NUM_CLIENTS": rng.choice([1, 2, 3]),
                                                             "REQUESTS": rng.choice([3, 5]), "PAGES": 3, "SEED": rng.randrange(1000), "DEADLINE_MS": 10000}})
    scen = [{"NUM_SERVERS": 2, "RUNNING": 3, "CRASH": 0}, {"NUM_SERVERS": 2, "RUNNING": 0, "CRASH": 0}, {"NUM_SERVERS": 2, "RUNNING": 3, "CRASH": 1}]
    if not q:
        scen += [{"NUM_SERVERS": 2, "RUNNING": 2, "CRASH": 0}, {"NUM_SERVERS": 3, "RUNNING": 7, "CRASH": 1}, {"NUM_SERVERS": 3, "RUNNING": 6, "CRASH": 2},
                 {"NUM_SERVERS": 3, "RUNNING": 5, "CRASH": 0}, {"NUM_SERVERS": 1, "RUNNING": 1, "CRASH": 1}]
    for s in scen:
        cases.append({"system": "live_proxy", "cfg": dict(s, REQUESTS=rng.choice([2, 3]), DEADLINE_MS=15000)})
    for c in cases:
        c["kind"] = "live"
    return cases


def run_one(binary, payload, deadline_ms):
    """one case, one process; returns (live dict or None, stderr tail)"""
    rc, res, err = vlib.run_jsonl(binary, [payload], timeout=deadline_ms / 1000.0 + 25)
    live = res[0].get("live") if res else None
    herr = res[0].get("err") if res else ""
    if live is None and herr:
        err = "harness: " + herr + "\n" + err
    return live, err[-1500:]


def common(name, live, err, fails):
    """failure classes common to all live runs; returns False when there is nothing further to judge"""
    if live is None:
        fails.append((name + "-crash", "the harness process died or returned nothing (runtime panic / failed assertion inside a resource?): " + err[-600:]))
        return False
    if live.get("outcome") == "setup-error":
        return False
    for who, how in sorted((live.get("ended") or {}).items()):
        if how:
            sig = "assertion-failed" if "assertion" in how.lower() else ("tla-type-error" if "TLA+ type" in how or "tla type" in how.lower() else "archetype-error")
            fails.append(("%s-%s" % (name, sig), "archetype %s ended with: %s" % (who, how[:300])))
    if live.get("outcome") == "hang":
        fails.append((name + "-hang", "did not finish before the deadline; still running: %r; ended: %r" % (live.get("running"), sorted((live.get("ended_before_stop") or live.get("ended") or {}).keys()))))
        return False
    if live.get("stuck_after_stop"):
        fails.append((name + "-stop-did-not-return", "Run had not returned 3 s after Stop for %r" % (live["stuck_after_stop"],)))
    return True


def outs(live):
    return [e for e in live.get("log", []) if e["kind"] == "out"]


def analyse(case, live, err):
    """returns {"fails": [(signature, what)], "nontrivial": bool, "observed": compact text of what was observed, "stats": {...}}"""
    name, cfg = case["system"], case["cfg"]
    fails, stats = [], {}
    out = {"fails": fails, "nontrivial": False, "observed": "", "stats": stats}
    ok = common(name.replace("_", "-"), live, err, fails)
    if live is not None:
        out["observed"] = json.dumps([(e["who"], e["kind"], e["value"]) for e in live.get("log", [])])[:4000]
    if name == "live_shcounter":
        tr = "rpc" if cfg["RPC"] else "local"
        if fails and fails[-1][0].endswith("-hang"):
            sig, what = fails.pop()
            fails.append((sig + ":" + tr, what + "; replicas: %r" % ([(r["value"], r["version"], r["twopc"]) for r in live["replicas"]],)))
        if live is not None:
            out["observed"] = json.dumps([cfg, [(r["value"], r["version"]) for r in live["replicas"]]])
            for v in live.get("violations") or []:
                fails.append(("live-shcounter-not-monotone", v))
        if ok:
            n = cfg["NUM_NODES"]
            bad = [(i, r["value"]) for i, r in enumerate(live["replicas"]) if r["value"] != n]
            if bad:
                fails.append(("live-shcounter-wrong-final-value", "all %d nodes finished but replicas (index, committed value) %r do not read NUM_NODES" % (n, bad)))
            if len(live.get("ended", {})) != n:
                fails.append(("live-shcounter-missing-node", "only %r ended" % sorted(live.get("ended", {}))))
            out["nontrivial"] = not fails
            stats["elapsed_ms"] = live["elapsed_ms"]
        return out
    if not ok:
        return out
    o = outs(live)
    if name == "live_dqueue":
        items = cfg["ITEMS"]
        vals = [e["value"] for e in o]
        want = list(range(1000, 1000 + items))
        if sorted(vals) != want:
            fails.append(("live-dqueue-lost-or-duplicated", "produced %r, consumers output %r" % (want, vals)))
        for c in sorted({e["who"] for e in o}):
            mine = [e["value"] for e in o if e["who"] == c]
            if mine != sorted(mine):
                fails.append(("live-dqueue-out-of-production-order", "consumer %s output %r" % (c, mine)))
        out["nontrivial"] = not fails and len({e["who"] for e in o}) >= min(2, cfg["NUM_CONSUMERS"])
    elif name == "live_loadbalancer":
        ns, ncl = cfg["NUM_SERVERS"], cfg["NUM_CLIENTS"]
        for k, req in enumerate(live["requested"]):
            who = "c%d" % (1 + ns + k)
            got = [e["value"] for e in o if e["who"] == who]
            want = ["content of page %d" % p for p in req]
            if got != want:
                fails.append(("live-loadbalancer-wrong-or-missing-reply", "client %s requested pages %r and received %r" % (who, req, got)))
        if len(o) != sum(len(r) for r in live["requested"]):
            fails.append(("live-loadbalancer-reply-count", "%d replies for %d requests" % (len(o), sum(len(r) for r in live["requested"]))))
        out["nontrivial"] = not fails
    elif name == "live_proxy":
        ns, reqs, mask, crash = cfg["NUM_SERVERS"], cfg["REQUESTS"], cfg["RUNNING"], cfg["CRASH"]
        started = {s for s in range(1, ns + 1) if mask & (1 << (s - 1))}
        proxy_id, client = ns + 2, ns + 1
        if len(o) != live["expected_outputs"]:
            fails.append(("live-proxy-reply-count", "%d replies for %d requests" % (len(o), live["expected_outputs"])))
        stop_seq = [e["seq"] for e in live["log"] if e["kind"] == "note"]
        fail_with_running = 0
        for k, e in enumerate(o):
            m = dict(e["value"]["f"])
            phase2 = bool(stop_seq) and e["seq"] > stop_seq[0]
            alive = started - ({crash} if phase2 else set())
            if m["from"] != proxy_id or m["to"] != client or m["id"] != k % 2:
                fails.append(("live-proxy-malformed-reply", "reply %d is %r" % (k, m)))
            if m["body"] == 100:
                if alive:
                    fail_with_running += 1
            elif m["body"] not in alive:
                fails.append(("live-proxy-answer-from-a-server-not-running", "reply %d has body %r, servers running: %r" % (k, m["body"], sorted(alive))))
        stats["FAIL_answers_while_a_server_was_running"] = fail_with_running
        out["nontrivial"] = not fails
    return out


def locksvc_analyse(n, live, err):
    """cmd/c15 live run: every client takes and releases the lock exactly once; holding intervals are pairwise disjoint.
    A client holds from the position at which it WROTE hasLock := TRUE (in the critical section that committed) to the position
    at which it wrote FALSE: resources of one critical section commit in no fixed order, so commit positions of hasLock and of
    the Unlock message are not ordered, write positions are (the write happens before any resource of that section commits)."""
    fails = []
    out = {"fails": fails, "nontrivial": False, "observed": "", "stats": {}}
    if not common("live-locksvc", live, err, fails):
        return out
    log = [e for e in live["log"] if e["kind"] == "commit"]
    out["observed"] = json.dumps([(e["who"], e["value"]) for e in log])
    iv = {}
    for c in range(1, n + 1):
        mine = [e for e in log if e["who"] == "c%d" % c]
        if [e["value"] for e in mine] != [True, False] or any(e["index"] != c for e in mine):
            fails.append(("live-locksvc-client-history", "client %d committed hasLock writes %r (expected TRUE then FALSE at its own index)" % (c, [(e["index"], e["value"]) for e in mine])))
        else:
            iv[c] = (mine[0]["wseq"], mine[1]["wseq"])
    for a in iv:
        for b in iv:
            if a < b and not (iv[a][1] < iv[b][0] or iv[b][1] < iv[a][0]):
                fails.append(("live-locksvc-mutual-exclusion", "clients %d and %d held the lock at the same time (write positions %r and %r)" % (a, b, iv[a], iv[b])))
    out["nontrivial"] = not fails and n >= 2
    out["stats"] = {"elapsed_ms": live["elapsed_ms"]}
    return out
