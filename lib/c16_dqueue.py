"""C16 / dqueue: generation, implementation-side oracle, projection for coq/C16/Dqueue.v."""
import json
import vlib
from c16_common import *

NAME = "dqueue"
COQ_MODULE = "C16.Dqueue"
PPC = {"AProducer.p": "P", "AProducer.p1": "P1", "AProducer.p2": "P2"}
CPC = {"AConsumer.c": "C", "AConsumer.c1": "C1", "AConsumer.c2": "C2"}


def gen(rng):
    nc = rng.choice([1, 2, 2, 3, 3, 4])
    b = rng.choice([1, 1, 2, 2, 3])
    cfg = {"NUM_CONSUMERS": nc, "BUFFER_SIZE": b}
    if rng.random() < 0.7:
        return {"system": NAME, "kind": "auto", "cfg": cfg, "auto": {"seed": rng.getrandbits(60) | 1, "steps": 30 + 14 * nc}}
    procs = ["producer"] + ["c%d" % c for c in range(1, nc + 1)]
    sched = []
    for _ in range(rng.randint(20, 30 + 14 * nc)):
        sched.append([procs[0] if rng.random() < 0.4 else rng.choice(procs[1:]), []])
    return {"system": NAME, "kind": "blind", "cfg": cfg, "sched": sched}


def coq_obs(o):
    return "(mkObs %s %d %d %s %s %s)" % (
        vlib.coq_list([coq_nats(q) for q in o["net"]]), o["processor"], o["stream"],
        "None" if o["requester"] is None else "(Some %d)" % o["requester"], o["ppc"], vlib.coq_list(o["cpc"]))


def analyse(case, res):
    nc, b = case["cfg"]["NUM_CONSUMERS"], case["cfg"]["BUFFER_SIZE"]
    fails, breaks, steps = [], [], []
    out = {"fails": fails, "breaks": breaks, "coq": None, "nontrivial": False,
           "explicit": {"system": NAME, "kind": case.get("kind", "corpus"), "cfg": case["cfg"], "sched": explicit_sched(res)}}
    if res.get("err"):
        breaks.append("harness error: " + res["err"])
        return out
    pcs = PCs(res["pcs0"])
    plocals = {}
    reqs, sent = [], []                 # requests in order of receipt; (requester, value) in production order
    got = {c: [] for c in range(1, nc + 1)}
    pre = res["init"]
    last_o = None
    maxq = 0
    try:
        for i, ob in enumerate(res["steps"]):
            f, br = generic_failures(i, ob)
            fails += f; breaks += br
            if br:
                break
            proc, label, oc = ob["proc"], ob["label"], ob["outcome"]
            p = 0 if proc == "producer" else int(proc[1:])
            post = ob["state"]
            if oc == "commit":
                if proc == "producer":
                    plocals = dict(ob["locals"])
                for el in ob["elems"]:
                    if label == "AProducer.p1" and el["kind"] == "r" and el["name"] == "AProducer.net":
                        reqs.append(el["val"])
                    if label == "AProducer.p2" and el["kind"] == "w" and el["name"] == "AProducer.net":
                        dest, v, k = el["idx"][0], el["val"], len(sent)
                        sent.append((dest, v))
                        if k >= len(reqs) or reqs[k] != dest:
                            fails.append(("dqueue-wrong-requester", "step %d: item #%d sent to %s but the %d-th request received came from %s" % (i, k, dest, k, reqs[k] if k < len(reqs) else None)))
                        if v != (k + 1) % b:
                            fails.append(("dqueue-stream-order", "step %d: item #%d has value %s, the stream's item #%d is %d" % (i, k, v, k, (k + 1) % b)))
                        if pcs.pc.get("c%s" % dest) != "AConsumer.c2":
                            fails.append(("dqueue-delivery-to-non-requesting", "step %d: item #%d sent to consumer %s which is at %s" % (i, k, dest, pcs.pc.get("c%s" % dest))))
                    if label == "AConsumer.c2" and el["kind"] == "r" and el["name"] == "AConsumer.net":
                        got[p].append(el["val"])
                        mine = [v for (d, v) in sent if d == p]
                        if got[p] != mine[:len(got[p])]:
                            fails.append(("dqueue-delivery-mismatch", "step %d: consumer %d has consumed %s but the items produced for it are %s" % (i, p, got[p], mine)))
                        if post.get("processor") != el["val"]:
                            fails.append(("dqueue-processor-not-written", "step %d: consumer %d read %s but processor = %s" % (i, p, el["val"], post.get("processor"))))
            pcs.update(ob)
            net = fn_dict(post["network"])
            qs = [[nat(x) for x in tup(net[n])] for n in range(nc + 1)]
            for n, q in enumerate(qs):
                if len(q) > b:
                    fails.append(("dqueue-buffer-overflow", "step %d: network[%d] holds %d messages, BUFFER_SIZE = %d" % (i, n, len(q), b)))
            # every item produced is consumed or still in flight, per consumer, in order
            for c in range(1, nc + 1):
                mine = [v for (d, v) in sent if d == c]
                if got[c] + qs[c] != mine:
                    fails.append(("dqueue-lost-or-duplicated", "step %d: items produced for consumer %d: %s; consumed %s + in flight %s" % (i, c, mine, got[c], qs[c])))
            if oc != "commit" and post != pre:
                fails.append(("abort-changed-state", "step %d: %s attempt of %s changed the spec state" % (i, oc, proc)))
            maxq = max(maxq, len(qs[0]))
            req = plocals.get("AProducer.requester")
            o = {"net": qs, "processor": nat(post["processor"]), "stream": nat(post["stream"]),
                 "requester": None if req is None else nat(req),
                 "ppc": PPC[pcs.pc["producer"]], "cpc": [CPC[pcs.pc["c%d" % c]] for c in range(1, nc + 1)]}
            same = oc != "commit" and post == pre and steps and last_o == o
            steps.append("(%d,(%d,%s))" % (p, OUT[oc], "None" if same else "Some " + coq_obs(o)))
            last_o = o
            pre = post
            if oc.startswith("error"):
                break
    except (Unencodable, KeyError) as e:
        breaks.append("observation outside the typed model's universe: %r" % (e,))
    out["coq"] = "(%d, %d, [%s])" % (nc, b, ";\n  ".join(steps))
    out["nontrivial"] = maxq >= 2 or len(sent) >= 3
    return out
